// "Program under test": uses std::thread/mutex/condvar/sleep_for like texel does.
#include <thread>
#include <mutex>
#include <condition_variable>
#include <chrono>
#include <cstdio>
#include <atomic>
std::mutex m; std::condition_variable cv; bool flag=false;
int racy = 0;               // intentionally racy plain int
std::atomic<int> okAtomic{0};
int guarded = 0;
void worker(int id){
  { std::lock_guard<std::mutex> L(m); guarded++; }
  racy++;                   // data race (no sync)
  okAtomic.fetch_add(1, std::memory_order_relaxed);
  std::this_thread::sleep_for(std::chrono::milliseconds(10));
  { std::lock_guard<std::mutex> L(m); flag=true; }
  cv.notify_all();
}
int prog_main(){
  std::thread a(worker,1), b(worker,2);
  { std::unique_lock<std::mutex> L(m); while(!flag) cv.wait(L); }
  { std::unique_lock<std::mutex> L(m); cv.wait_for(L, std::chrono::milliseconds(5)); }
  a.join(); b.join();
  auto t = std::chrono::steady_clock::now().time_since_epoch().count();
  printf("guarded=%d racy=%d t=%lld\n", guarded, racy, (long long)t);
  return 0;
}
