#!/bin/bash
# usage: batch.sh seed
s=$1
P="r1bq1rk1/pp2ppbp/2np1np1/8/3NP3/2N1BP2/PPPQ2PP/R3KB1R w KQ - 3 9"
case $((s % 4)) in
0) SCRIPT=$'uci\nsetoption name Threads value 4\nisready\nposition startpos\ngo ponder wtime 1000 btime 1000\nponderhit\nposition startpos moves e2e4\ngo depth 6\nsetoption name Threads value 1\ngo depth 3\nquit\n';;
1) SCRIPT=$'isready\nsetoption name Threads value 8\nposition fen '"$P"$'\ngo infinite\nsetoption name Hash value 2\nisready\nstop\ngo nodes 5000\nucinewgame\ngo movetime 20\nquit\n';;
2) SCRIPT=$'uci\nsetoption name Threads value 3\nsetoption name MultiPV value 3\nposition startpos moves d2d4 d7d5\ngo ponder depth 5\nstop\ngo depth 5 searchmoves c2c4 g1f3\ngo infinite\n';;
3) SCRIPT=$'setoption name Threads value 2\ngo depth 4\ngo depth 4\ngo depth 4\nsetoption name Threads value 5\ngo depth 4\nisready\nquit\n';;
esac
D=$(( (s * 7919) % 400 ))
out=$(VERIF_SEED=$s DELAY=$D SHOW=1 timeout 60 ./sim6 "$SCRIPT" 2>&1); rc=$?
gos=$(printf "%s" "$SCRIPT" | grep -c "^go"); bms=$(printf "%s\n" "$out" | grep -c "^bestmove")
echo "seed=$s kind=$((s%4)) delay=$D rc=$rc go=$gos bestmove=$bms $(printf "%s\n" "$out" | grep -o "steps=[0-9]*")"
