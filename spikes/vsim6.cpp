// Minimal baton scheduler, compiled WITHOUT -fsanitize=thread so TSan cannot see its hand-offs.
#include <pthread.h>
#include <time.h>
#include <errno.h>
#include <unistd.h>
#include <sys/syscall.h>
#include <linux/futex.h>
#include <cstdio>
#include <cstdlib>
#include <cstdint>
extern "C" {
int __real_pthread_mutex_lock(pthread_mutex_t*); int __real_pthread_mutex_trylock(pthread_mutex_t*);
int __real_pthread_mutex_unlock(pthread_mutex_t*);
int __real_pthread_create(pthread_t*,const pthread_attr_t*,void*(*)(void*),void*);
int __real_pthread_join(pthread_t,void**);
}
enum St { RUNNABLE, BLK_MUTEX, BLK_COND, BLK_JOIN, DONE };
struct T { int fut; St st; void* on; pthread_t pt; bool timedout; void*(*fn)(void*); void* arg; bool hasTimeout; };
static T th[256]; static int nth=0; static int cur=0; static uint64_t rng=88172645463325252ULL; static long steps=0; static unsigned long long shash=1469598103934665603ULL; static long vnow=0;
static __thread int me=-1;
static uint64_t rnd(){ rng^=rng<<13; rng^=rng>>7; rng^=rng<<17; return rng; }
static void fwait(int* f){ while(__atomic_load_n(f,__ATOMIC_ACQUIRE)==0) syscall(SYS_futex,f,FUTEX_WAIT,0,nullptr,nullptr,0); __atomic_store_n(f,0,__ATOMIC_RELAXED);} 
static void fwake(int* f){ __atomic_store_n(f,1,__ATOMIC_RELEASE); syscall(SYS_futex,f,FUTEX_WAKE,1,nullptr,nullptr,0);} 
static void pick_and_switch(bool iAmDone){
  steps++;
  int cand[256], n=0;
  for(int i=0;i<nth;i++){ T&t=th[i]; if(t.st==RUNNABLE) cand[n++]=i; else if(t.st==BLK_COND&&t.hasTimeout) cand[n++]=i; }
  if(n==0){ fprintf(stderr,"SIM DEADLOCK\n"); _exit(3);} 
  int nx=cand[rnd()%n]; shash=(shash^(unsigned long long)(nx*131+n))*1099511628211ULL;
  if(th[nx].st==BLK_COND){ th[nx].timedout=true; th[nx].st=RUNNABLE; }
  if(nx==me) return;
  cur=nx; fwake(&th[nx].fut);
  if(!iAmDone) fwait(&th[me].fut);
}
static void yield_(){ pick_and_switch(false);} 
extern "C" {
void vsim_init(){ me=0; nth=1; th[0].st=RUNNABLE; th[0].pt=pthread_self(); if(getenv("VERIF_SEED")) rng^=strtoull(getenv("VERIF_SEED"),0,10)*0x9E3779B97F4A7C15ULL; }
long vsim_steps(){return steps;} unsigned long long vsim_hash(){return shash;} long vsim_now(){return vnow;}
int __wrap_pthread_mutex_lock(pthread_mutex_t*m){ if(me<0) return __real_pthread_mutex_lock(m); yield_(); while(__real_pthread_mutex_trylock(m)!=0){ th[me].st=BLK_MUTEX; th[me].on=m; yield_(); } return 0; }
int __wrap_pthread_mutex_unlock(pthread_mutex_t*m){ int r=__real_pthread_mutex_unlock(m); if(me<0) return r; for(int i=0;i<nth;i++) if(th[i].st==BLK_MUTEX&&th[i].on==m) th[i].st=RUNNABLE; yield_(); return r; }
extern "C" int __real_pthread_cond_wait(pthread_cond_t*,pthread_mutex_t*);
static int condwait(pthread_cond_t*c,pthread_mutex_t*m,bool timed){ if(me<0) return __real_pthread_cond_wait(c,m); th[me].st=BLK_COND; th[me].on=c; th[me].hasTimeout=timed; th[me].timedout=false; __wrap_pthread_mutex_unlock(m); /* unlock yields; we only return here once RUNNABLE */
  while(th[me].st!=RUNNABLE) yield_(); bool to=th[me].timedout; th[me].hasTimeout=false; __wrap_pthread_mutex_lock(m); return to?ETIMEDOUT:0; }
int __wrap_pthread_cond_wait(pthread_cond_t*c,pthread_mutex_t*m){ return condwait(c,m,false);} 
int __wrap_pthread_cond_clockwait(pthread_cond_t*c,pthread_mutex_t*m,clockid_t,const timespec*){ return condwait(c,m,true);} 
int __wrap_pthread_cond_timedwait(pthread_cond_t*c,pthread_mutex_t*m,const timespec*){ return condwait(c,m,true);} 
int __wrap_pthread_cond_broadcast(pthread_cond_t*c){ if(me<0) return 0; for(int i=0;i<nth;i++) if(th[i].st==BLK_COND&&th[i].on==c){ th[i].st=RUNNABLE; } yield_(); return 0; }
int __wrap_pthread_cond_signal(pthread_cond_t*c){ if(me<0) return 0; for(int i=0;i<nth;i++) if(th[i].st==BLK_COND&&th[i].on==c){ th[i].st=RUNNABLE; break; } yield_(); return 0; }
static void* tramp(void*p){ int id=(int)(intptr_t)p; me=id; fwait(&th[id].fut); void* r=th[id].fn(th[id].arg); th[id].st=DONE; for(int i=0;i<nth;i++) if(th[i].st==BLK_JOIN&&th[i].on==&th[id]) th[i].st=RUNNABLE; pick_and_switch(true); return r; }
int __wrap_pthread_create(pthread_t*pt,const pthread_attr_t*a,void*(*fn)(void*),void*arg){ if(me<0) return __real_pthread_create(pt,a,fn,arg); int id=nth++; th[id].fn=fn; th[id].arg=arg; th[id].st=RUNNABLE; th[id].fut=0; int r=__real_pthread_create(pt,a,tramp,(void*)(intptr_t)id); th[id].pt=*pt; yield_(); return r; }
int __wrap_pthread_join(pthread_t pt,void**rv){ if(me<0) return __real_pthread_join(pt,rv); int id=-1; for(int i=0;i<nth;i++) if(pthread_equal(th[i].pt,pt)) id=i; while(th[id].st!=DONE){ th[me].st=BLK_JOIN; th[me].on=&th[id]; yield_(); } return __real_pthread_join(pt,rv); }
int __wrap_nanosleep(const timespec*r,timespec*){ if(me<0) return 0; vnow+=r->tv_sec*1000000000L+r->tv_nsec; yield_(); return 0; }
int __wrap_clock_nanosleep(clockid_t,int,const timespec*,timespec*){ yield_(); return 0; }
int __wrap_clock_gettime(clockid_t,timespec*t){ vnow+=1000; if(me>=0) yield_(); t->tv_sec=vnow/1000000000L; t->tv_nsec=vnow%1000000000L; return 0; }
}
extern "C" int __wrap_pthread_mutex_trylock(pthread_mutex_t*m){ return __real_pthread_mutex_trylock(m); }
