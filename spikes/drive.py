import subprocess, sys, time, threading
fen, delay = sys.argv[1], float(sys.argv[2])
p = subprocess.Popen(["./texel_mat"], stdin=subprocess.PIPE, stdout=subprocess.PIPE, text=True, bufsize=1)
out=[]
def rd():
    for l in p.stdout:
        out.append((time.time(), l.rstrip()))
t=threading.Thread(target=rd); t.start()
def send(s): p.stdin.write(s+"\n"); p.stdin.flush()
send("uci"); send("isready")
while not any(l=="readyok" for _,l in out): time.sleep(0.01)
send("position fen "+fen); send("go infinite"); time.sleep(delay); send("stop")
while not any(l.startswith("bestmove") for _,l in out): time.sleep(0.01)
n=len(out)
send("go infinite"); time.sleep(3.5); send("stop"); time.sleep(0.3); send("quit"); t.join()
for _,l in out[:n]:
    if not l.startswith(("option","id ","info string")): print("1>",l[:160])
sel=[l for _,l in out[n:] if not l.startswith(("info string","info currmove"))]
for l in sel[:6]+["..."]+sel[-3:]: print("2>",l[:200])
