// count wrapped calls to see which symbols libstdc++ actually uses
#include <pthread.h>
#include <time.h>
#include <cstdio>
extern "C" {
#define CNT(name) int cnt_##name=0;
CNT(mutex_lock) CNT(mutex_unlock) CNT(cond_wait) CNT(cond_timedwait) CNT(cond_clockwait) CNT(cond_signal) CNT(cond_broadcast) CNT(create) CNT(join) CNT(nanosleep) CNT(clock_nanosleep) CNT(clock_gettime)
int __real_pthread_mutex_lock(pthread_mutex_t*); int __wrap_pthread_mutex_lock(pthread_mutex_t*x){ __atomic_fetch_add(&cnt_mutex_lock,1,0); return __real_pthread_mutex_lock(x);}
int __real_pthread_mutex_unlock(pthread_mutex_t*); int __wrap_pthread_mutex_unlock(pthread_mutex_t*x){ __atomic_fetch_add(&cnt_mutex_unlock,1,0); return __real_pthread_mutex_unlock(x);}
int __real_pthread_cond_wait(pthread_cond_t*,pthread_mutex_t*); int __wrap_pthread_cond_wait(pthread_cond_t*c,pthread_mutex_t*x){ __atomic_fetch_add(&cnt_cond_wait,1,0); return __real_pthread_cond_wait(c,x);}
int __real_pthread_cond_timedwait(pthread_cond_t*,pthread_mutex_t*,const timespec*); int __wrap_pthread_cond_timedwait(pthread_cond_t*c,pthread_mutex_t*x,const timespec*t){ __atomic_fetch_add(&cnt_cond_timedwait,1,0); return __real_pthread_cond_timedwait(c,x,t);}
int __real_pthread_cond_clockwait(pthread_cond_t*,pthread_mutex_t*,clockid_t,const timespec*); int __wrap_pthread_cond_clockwait(pthread_cond_t*c,pthread_mutex_t*x,clockid_t k,const timespec*t){ __atomic_fetch_add(&cnt_cond_clockwait,1,0); return __real_pthread_cond_clockwait(c,x,k,t);}
int __real_pthread_cond_signal(pthread_cond_t*); int __wrap_pthread_cond_signal(pthread_cond_t*c){ __atomic_fetch_add(&cnt_cond_signal,1,0); return __real_pthread_cond_signal(c);}
int __real_pthread_cond_broadcast(pthread_cond_t*); int __wrap_pthread_cond_broadcast(pthread_cond_t*c){ __atomic_fetch_add(&cnt_cond_broadcast,1,0); return __real_pthread_cond_broadcast(c);}
int __real_pthread_create(pthread_t*,const pthread_attr_t*,void*(*)(void*),void*); int __wrap_pthread_create(pthread_t*a,const pthread_attr_t*b,void*(*f)(void*),void*d){ __atomic_fetch_add(&cnt_create,1,0); return __real_pthread_create(a,b,f,d);}
int __real_pthread_join(pthread_t,void**); int __wrap_pthread_join(pthread_t a,void**b){ __atomic_fetch_add(&cnt_join,1,0); return __real_pthread_join(a,b);}
int __real_nanosleep(const timespec*,timespec*); int __wrap_nanosleep(const timespec*a,timespec*b){ __atomic_fetch_add(&cnt_nanosleep,1,0); return __real_nanosleep(a,b);}
int __real_clock_nanosleep(clockid_t,int,const timespec*,timespec*); int __wrap_clock_nanosleep(clockid_t k,int f,const timespec*a,timespec*b){ __atomic_fetch_add(&cnt_clock_nanosleep,1,0); return __real_clock_nanosleep(k,f,a,b);}
int __real_clock_gettime(clockid_t,timespec*); int __wrap_clock_gettime(clockid_t k,timespec*t){ __atomic_fetch_add(&cnt_clock_gettime,1,0); return __real_clock_gettime(k,t);}
}
int prog_main();
int main(){ prog_main();
#define P(n) printf(#n"=%d ", cnt_##n);
P(mutex_lock)P(mutex_unlock)P(cond_wait)P(cond_timedwait)P(cond_clockwait)P(cond_signal)P(cond_broadcast)P(create)P(join)P(nanosleep)P(clock_nanosleep)P(clock_gettime) puts(""); }
