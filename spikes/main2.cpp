#include <cstdio>
extern "C" void vsim_init(); extern "C" long vsim_steps(); int prog_main();
int main(){ vsim_init(); prog_main(); printf("steps=%ld\n", vsim_steps()); }
