// Spike 6: run the real UCIProtocol::main under the baton scheduler with scripted stdin.
#include "uciprotocol.hpp"
#include "computerPlayer.hpp"
#include "cluster.hpp"
#include <iostream>
#include <sstream>
#include <streambuf>
#include <unistd.h>
extern "C" void vsim_init(); extern "C" long vsim_steps(); extern "C" unsigned long long vsim_hash(); extern "C" long vsim_now();
#include <time.h>
#include <vector>
struct InBuf : std::streambuf { std::vector<std::string> lines; size_t idx=0; std::string cur; int delay;
  int underflow() override { if (idx>=lines.size()) return EOF; if (idx>0 && lines[idx-1].compare(0,2,"go")==0) { timespec ts{0,1000000}; for(int i=0;i<delay;i++) nanosleep(&ts,nullptr); }
    cur=lines[idx++]+"\n"; setg(&cur[0],&cur[0],&cur[0]+cur.size()); return (unsigned char)cur[0]; } };
struct OutBuf : std::streambuf { std::string s; unsigned long long h=1469598103934665603ULL;
  std::streamsize xsputn(const char* p, std::streamsize n) override { s.append(p,n); for (std::streamsize i=0;i<n;i++) h=(h^(unsigned char)p[i])*1099511628211ULL; return n; }
  int overflow(int c) override { if (c!=EOF){ s.push_back((char)c); h=(h^(unsigned char)c)*1099511628211ULL;} return c; } };
int main(int argc, char** argv) {
  const char* script = argc > 1 ? argv[1] : "uci\nisready\nsetoption name Threads value 3\nposition startpos moves e2e4\ngo depth 7\nisready\nposition startpos\ngo nodes 20000\nstop\nquit\n";
  ComputerPlayer::initEngine();
  InBuf in; { std::istringstream is(script); std::string l; while (std::getline(is,l)) in.lines.push_back(l); } in.delay = getenv("DELAY")?atoi(getenv("DELAY")):2000; OutBuf out;
  std::cin.rdbuf(&in); std::streambuf* old = std::cout.rdbuf(&out);
  vsim_init();
  UCIProtocol::main(false);
  std::cout.rdbuf(old);
  std::string o = out.s; size_t nl = 0, bm = 0; for (size_t p = 0; (p = o.find('\n', p)) != std::string::npos; p++) nl++;
  for (size_t p = 0; (p = o.find("bestmove", p)) != std::string::npos; p++) bm++;
  fprintf(stderr, "steps=%ld schedhash=%016llx outhash=%016llx lines=%zu bestmoves=%zu vnow_ms=%ld\n", vsim_steps(), vsim_hash(), out.h, nl, bm, vsim_now()/1000000);
  if (getenv("SHOW")) { write(2, o.data(), o.size()); }
  return 0;
}
