#include <iostream>
#include <thread>
int main(){
  std::thread a([]{ for(int i=0;i<200000;i++) std::cout << "info depth " << i << " score cp " << 12 << " nodes " << i*3 << " pv" << " e2e4" << std::endl; });
  std::thread b([]{ for(int i=0;i<200000;i++) std::cout << "readyok" << std::endl; });
  a.join(); b.join();
}
