#!/usr/bin/env python3
"""Determinism gate: every class, N seeds, each executed twice in separate processes at two different worker
counts; schedule hash, stdout hash, step count, verdict and all counters must be pairwise identical."""
import json, subprocess, sys, os
ROOT = os.path.dirname(os.path.dirname(os.path.abspath(__file__)))
flavour = sys.argv[1] if len(sys.argv) > 1 else 'plain'
n = int(sys.argv[2]) if len(sys.argv) > 2 else 200
classes = sys.argv[3:] or ['C05', 'C10', 'C03', 'C06', 'C06J', 'C13', 'C07', 'C09', 'C17', 'C18S', 'C04', 'C08', 'C19', 'C18', 'C17PGN', 'C07H', 'C12', 'C14']
binp = os.path.join(ROOT, 'build', flavour, 'texelsim')
def run(cls, seed0, count, workers):
    procs = [subprocess.Popen([binp, 'batch', cls, str(seed0), str(count), '--stride', str(workers), '--offset', str(w), '--wall', '200'],
                              stdout=subprocess.PIPE, stderr=subprocess.DEVNULL, text=True, errors='replace', env=dict(os.environ, VERIF_SEED='1')) for w in range(workers)]
    res = {}
    for p in procs:
        out, _ = p.communicate()
        for l in out.split('\n'):
            if l.strip():
                j = json.loads(l)
                r = j.get('r') or {}
                c = dict(r.get('counters') or {})
                res[j['seed']] = (j['status'], r.get('verdict'), r.get('vclass'), (r.get('info') or {}).get('schedhash'), (r.get('info') or {}).get('outhash'),
                                  (r.get('info') or {}).get('casehash'), json.dumps(c, sort_keys=True))
    return res
bad = 0
for cls in classes:
    cnt = n if cls not in ('C14', 'C13', 'C04') else max(20, n // 4)
    a = run(cls, 424200, cnt, 7)
    b = run(cls, 424200, cnt, 16)
    diff = [s for s in a if a[s] != b.get(s)]
    print('%-7s %d seeds x2: %d differ%s' % (cls, len(a), len(diff), '' if not diff else '  e.g. seed %s: %s vs %s' % (diff[0], a[diff[0]][:6], b.get(diff[0], ())[:6])))
    sys.stdout.flush()
    bad += len(diff)
sys.exit(1 if bad else 0)
