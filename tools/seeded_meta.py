#!/usr/bin/env python3
"""Writes seeded/<id>/meta.json for every kept seeded change (results are recorded by hand from the mutant_test logs)."""
import json, os
ROOT = os.path.dirname(os.path.dirname(os.path.abspath(__file__)))
CONFIRM = "tools/confirm_mutant.sh <patch> <tag>: applied to a scratch worktree of /repo HEAD, cmake build with the guard off, ctest: 137/137 stable baseline tests pass"
M = {
 'M-C03': dict(breaks='C03', change="startPonder() no longer copies sPar.searchMoves (app/texel/enginecontrol.cpp)",
      needs="multi-step sequence: a 'go searchmoves ...' followed later by 'go ponder' on another position, or the unusual 'go ponder searchmoves ...'",
      caught_by={'C03': 'yes (bestmove-not-in-searchmoves 53 runs, null-bestmove 41, pv-not-in-searchmoves 4; also in the asan flavour)', 'C05': 'yes (same classes, 116 runs)'},
      demo="demo/demo_c03.py (drives the texel binary): bestmove 0000 / move outside searchmoves with the patch"),
 'M-C04': dict(breaks='C04', change="late move pruning no longer guarded by !isLoseScore(bestScore) (lib/texellib/search.cpp)",
      needs="positions with a piece and a pawn where a quiet mate threat is only answerable by a late quiet move; about 0.9% of random playout positions at depth 8",
      caught_by={'C04': 'yes (false-mate-claim, 4 runs: mate 3 lowerbound refuted by the exhaustive solver)'},
      demo="demo/mate_demo.cpp + mateSolver.hpp: 7 of 10 positions announce false mates with the patch"),
 'M-C05': dict(breaks='C05', change="EngineControl::waitReady() always waits for pending options",
      needs="three-step sequence: a search that needs release (go infinite / go ponder), an option queued during it, then isready",
      caught_by={'C05': 'yes (step-budget / no-readyok: the protocol thread blocks for ever, 47 plain + 10 asan runs)'},
      demo="demo/demo_c05.py"),
 'M-C06': dict(breaks='C06', change="Search::shouldStop(): soft limit stretched by hardFactor is no longer capped by the hard limit",
      needs="hard/soft ratio below hardFactor (movestogo 1..6 or low clock with large increment), unstable search, deadline during the first root move",
      caught_by={'C06': 'yes (deadline-overrun, 9 runs: e.g. 1989 main-search nodes after a 16 ms budget)'},
      demo="demo/timecheck.py"),
 'M-C07': dict(breaks='C07', change="NNEvaluator::forceFullEval(): clears the stack-top state before resetting stackTop (lib/texellib/nn/nneval.cpp)",
      needs="evaluation on an empty stack, then makeMove(s), then assignment to the connected position with a king on the same square, then evaluation; in the engine only after a helper result is adopted for a reduced root move that is then re-searched (Threads > 1, rare interleaving)",
      caught_by={'C07': 'first NO (in-search monitor, 1276 quick runs and 3452 tier-1 runs: the interleaving never occurred); after adding the history class C07H: yes (history-eval-mismatch, 50 of 285 runs)'},
      demo="demo/demo_c07.cpp"),
 'M-C08': dict(breaks='C08', change="TranspositionTable::clear() no longer drops the on-demand tablebase generator (reSize() does)",
      needs="tablebase generated, then Clear Hash / ucinewgame, then a search on the same material",
      caught_by={'C08': 'first NO; after adding the clear()-with-resident-table check: yes (tablebase-survives-clear, 30 plain + 9 asan runs)', 'C13': 'yes (inexact-distance / false-mate-claim, 35 runs) once Clear Hash/ucinewgame were put between tablebase searches'},
      demo="demo/demo_c08.cpp, demo/uci_demo.sh"),
 'M-C09': dict(breaks='C09', change="EngineMainThread::setOptions() applies one batch and signals 'all options applied' although a second batch is pending",
      needs="slow option A being applied, option B queued during A, then go",
      caught_by={'C09': "first NO (642 runs); after adding option bursts before searches: yes, 6 of 744 runs crash with 'pure virtual method called' (the child list is modified while iterated); ThreadSanitizer itself reported nothing in these schedules because a mutex edge happened to order the racing accesses"},
      demo="demo/drive.sh with demo/build_tsan.sh (TSan build of texel)"),
 'M-C10': dict(breaks='C10', change="Communicator::sendStopAck(): the child branch forwards the ack without testing stopAckWaitSelf",
      needs="Threads >= 6 (two-level helper tree) and an inner helper delayed inside poll() while its child answers first",
      caught_by={'C10': 'yes (deadlock 29 runs, no-readyok 22, no-bestmove 21)'},
      demo="demo/stopack_order_demo.cpp, demo/uci_go_loop.py"),
 'M-C12': dict(breaks='C12', change="updateTB() builds into a local generator and keeps the previous generator when the new generation fails",
      needs="table A resident, generation of another material class aborted, then probes of A",
      caught_by={'C12': 'first NO (no table was resident before the aborted generation); after adding a previously resident table: yes (overwritten-table-in-use, 52 runs)'},
      demo="demo/tbabort_demo.cpp"),
 'M-C13': dict(breaks='C13', change="same defect as M-C12, written independently (updateTB keeps the old generator on failure)",
      needs="class A analysed, class B generation stopped in the retrograde phase, class A analysed again",
      caught_by={'C13': 'yes (inexact-distance) after material-class changes were added to the C13 generator', 'C12': 'yes (same patch as M-C12)'},
      demo="demo/demo_stale_tb.cpp, demo/uci_demo.py"),
 'M-C14': dict(breaks='C14', change="clear() no longer restores the full used size of the hash table (setUsedSize moved into reSize())",
      needs="on-demand tablebase generated earlier (shrinks the used size), Clear Hash, then a probe large enough to overflow buckets",
      caught_by={'C14': 'small probes cannot see it; after the probe transcript was extended by the hash-table geometry the probe search ran with: yes (differs-from-fresh, 7 runs)'},
      demo="demo/run_demo.py"),
 'M-C17': dict(breaks='C17', change="PGN parser: END token inside a root-level variation skip loop no longer returns (break leaves only the switch)",
      needs="an opening parenthesis before the first move that is never closed before the end of the stream",
      caught_by={'C17': 'C17PGN with unterminated-delimiter stream faults: the hang is reported as wall-clock timeout (see work log; each hit costs the watchdog time)'},
      demo="demo/pgn_root_variation.cpp"),
 'M-C18': dict(breaks='C18', change="Book::getBookMove() validates against pseudo-legal instead of legal moves",
      needs="polyglot file with an entry under the position key whose move is pseudo-legal but illegal (pin, check), positive weight",
      caught_by={'C18': 'yes after pseudo-legal collision records and long lines were added (illegal-book-move, 729 plain + 95 asan runs)'},
      demo="demo/demo.cpp"),
 'M-C19': dict(breaks='C19', change="computePathError() returns 'modified' from the wrong comparison (oldPW instead of oldPB)",
      needs="white path error unchanged, black path error changes to exactly the white value, node has children",
      caught_by={'C19': 'yes (fixed-point-violated, 4 plain + 1 asan runs)'},
      demo="demo/demo.cpp (confirmed: FAIL with the patch, OK without)"),
}
for k, v in M.items():
    d = os.path.join(ROOT, 'seeded', k)
    if not os.path.isdir(d):
        continue
    meta = {'id': k, 'breaks_property': v['breaks'], 'change': v['change'], 'needs_to_manifest': v['needs'],
            'confirmed': {'compiles_and_passes_existing_tests': CONFIRM, 'demonstration': v['demo']},
            'checks_run': {c: r for c, r in v['caught_by'].items()},
            'how_run': 'tools/mutant_test.sh seeded/%s/patch.diff <check> quick (scratch worktree under /tmp, removed afterwards)' % k,
            'origin': 'written by a fresh sub-agent that saw only the property text and its own scratch worktree'}
    json.dump(meta, open(os.path.join(d, 'meta.json'), 'w'), indent=1)
print('wrote', len(M), 'meta files')
