# Run plans per property and tier: which run classes, which build flavour, how many runs.
# budget_s bounds the wall-clock of each worker of an entry; run_wall_s is the per-run watchdog.

def E(cls, flavour, runs, budget_s=150, **kw):
    d = {'cls': cls, 'flavour': flavour, 'runs': runs, 'budget_s': budget_s}
    d.update(kw)
    return d

ALL4 = ['build/plain/texelsim dtm all3 KQQvK KQRvK KQBvK KQNvK KRRvK', 'build/plain/texelsim dtm KRBvK KRNvK KBBvK KBNvK KNNvK', 'build/plain/texelsim dtm KQvKQ KQvKR KQvKB KQvKN KRvKR', 'build/plain/texelsim dtm KRvKB KRvKN KBvKB KBvKN KNvKN']

PLANS = {
    'C04': {'quick': [E('C04', 'plain', 1500, 100, run_wall_s=120, prep=ALL4), E('C04', 'asan', 60, 40, seed_offset=500000, run_wall_s=200)],
            'thorough': [E('C04', 'plain', 30000, 7200, run_wall_s=600, tier=1, prep=ALL4), E('C04', 'asan', 1500, 1800, seed_offset=500000, run_wall_s=600)]},
    'C05': {'quick': [E('C05', 'plain', 1500, 90), E('C05', 'asan', 160, 45, seed_offset=500000, run_wall_s=120)],
            'thorough': [E('C05', 'plain', 100000, 3000), E('C05', 'asan', 10000, 1500, seed_offset=500000)]},
    'C10': {'quick': [E('C10', 'plain', 2500, 110)],
            'thorough': [E('C10', 'plain', 200000, 3600), E('C10', 'asan', 5000, 900, seed_offset=500000)]},
    'C03': {'quick': [E('C03', 'plain', 1200, 80), E('C03', 'asan', 100, 40, seed_offset=500000, run_wall_s=120)],
            'thorough': [E('C03', 'plain', 60000, 3600), E('C03', 'asan', 3000, 1200, seed_offset=500000)]},
    'C17': {'quick': [E('C17', 'asan', 700, 90, run_wall_s=150), E('C17', 'plain', 1500, 40, seed_offset=300000), E('C17PGN', 'asan', 3000, 30, seed_offset=500000, run_wall_s=15)],
            'thorough': [E('C17', 'asan', 50000, 3600, run_wall_s=300), E('C17', 'plain', 100000, 1800, seed_offset=300000), E('C17PGN', 'asan', 100000, 1200, seed_offset=500000, tier=1, run_wall_s=30)]},
    'C18': {'quick': [E('C18', 'plain', 4000, 40), E('C18', 'asan', 500, 40, seed_offset=500000), E('C18S', 'plain', 400, 50, seed_offset=700000),
                      E('C18S', 'asan', 60, 30, seed_offset=800000, run_wall_s=120)],
            'thorough': [E('C18', 'plain', 100000, 1200, tier=1), E('C18', 'asan', 20000, 1200, seed_offset=500000, tier=1),
                         E('C18S', 'plain', 20000, 1800, seed_offset=700000), E('C18S', 'asan', 2000, 900, seed_offset=800000, run_wall_s=300)]},
    'C19': {'quick': [E('C19', 'plain', 3000, 40), E('C19', 'asan', 400, 40, seed_offset=500000)],
            'thorough': [E('C19', 'plain', 100000, 2400, tier=1), E('C19', 'asan', 10000, 1800, seed_offset=500000, tier=1)]},
    # C07: monitor inside searches (plain + asan) and the same seeds in every SIMD build variant (hashes must agree)
    'C07': {'quick': [E('C07', 'plain', 300, 35, compare_group='simd'), E('C07', 'plain-ssse3', 300, 35, compare_group='simd'),
                      E('C07', 'plain-avx2', 300, 35, compare_group='simd'), E('C07', 'plain-avx512', 300, 35, compare_group='simd'),
                      E('C07', 'asan', 80, 30, seed_offset=500000, run_wall_s=120),
                      E('C07H', 'plain', 2500, 30, seed_offset=600000), E('C07H', 'asan', 300, 20, seed_offset=700000)],
            'thorough': [E('C07', 'plain', 20000, 2400, tier=1, compare_group='simd'), E('C07', 'plain-ssse3', 20000, 2400, tier=1, compare_group='simd'),
                         E('C07', 'plain-avx2', 20000, 2400, tier=1, compare_group='simd'), E('C07', 'plain-avx512', 20000, 2400, tier=1, compare_group='simd'),
                         E('C07', 'asan', 3000, 1200, seed_offset=500000, run_wall_s=300, tier=1),
                         E('C07H', 'plain', 200000, 1800, seed_offset=600000, tier=1), E('C07H', 'asan', 20000, 900, seed_offset=700000, tier=1)]},
    'C08': {'quick': [E('C08', 'plain', 6000, 70), E('C08', 'asan', 600, 40, seed_offset=500000)],
            'thorough': [E('C08', 'plain', 1000000, 3000, tier=1), E('C08', 'asan', 50000, 1500, seed_offset=500000, tier=1)]},
    'C09': {'quick': [E('C09', 'tsan', 400, 100, run_wall_s=100), E('C09PG', 'tsan', 300, 25, seed_offset=500000, run_wall_s=100),
                      E('C10', 'tsan', 150, 40, seed_offset=700000, run_wall_s=100), E('C05', 'tsan', 150, 40, seed_offset=800000, run_wall_s=100)],
            'thorough': [E('C09', 'tsan', 10000, 3600, run_wall_s=600, tier=1), E('C09PG', 'tsan', 5000, 900, seed_offset=500000, run_wall_s=300, tier=1),
                         E('C10', 'tsan', 2000, 1200, seed_offset=700000, run_wall_s=600), E('C05', 'tsan', 2000, 1200, seed_offset=800000, run_wall_s=600)]},
    # C12: seeds 0..1039 enumerate (3-man class, colour assignment, abort step 0..63, abort kind) completely; the rest samples 4-man classes
    'C12': {'quick': [E('C12', 'plain', 1040 + 45, 140, enumerate=True, run_wall_s=200,
                        prep=['build/plain/texelsim dtm all3', 'build/plain/texelsim dtm KQvKR', 'build/plain/texelsim dtm KRBvK', 'build/plain/texelsim dtm KRRvK'])],
            'thorough': [E('C12', 'plain', 1040 + 1200, 7200, enumerate=True, run_wall_s=600,
                           prep=['build/plain/texelsim dtm all3 KQQvK KQRvK KQBvK KQNvK KRRvK', 'build/plain/texelsim dtm KRBvK KRNvK KBBvK KBNvK KNNvK',
                                 'build/plain/texelsim dtm KQvKQ KQvKR KQvKB KQvKN KRvKR', 'build/plain/texelsim dtm KRvKB KRvKN KBvKB KBvKN KNvKN'])]},
    'C13': {'quick': [E('C13', 'plain', 1200, 100, run_wall_s=120,
                        prep=['build/plain/texelsim dtm all3', 'build/plain/texelsim dtm KQvKR', 'build/plain/texelsim dtm KRBvK'])],
            'thorough': [E('C13', 'plain', 20000, 7200, run_wall_s=300,
                           prep=['build/plain/texelsim dtm all3 KQQvK KQRvK KQBvK KQNvK KRRvK', 'build/plain/texelsim dtm KRBvK KRNvK KBBvK KBNvK KNNvK',
                                 'build/plain/texelsim dtm KQvKQ KQvKR KQvKB KQvKN KRvKR', 'build/plain/texelsim dtm KRvKB KRvKN KBvKB KBvKN KNvKN'])]},
    'C14': {'quick': [E('C14', 'plain', 400, 110, run_wall_s=120)],
            'thorough': [E('C14', 'plain', 10000, 3600, run_wall_s=300)]},
    'C06': {'quick': [E('C06', 'plain', 2500, 90), E('C06J', 'plain', 800, 35, seed_offset=400000)],
            'thorough': [E('C06', 'plain', 80000, 3600), E('C06J', 'plain', 30000, 1800, seed_offset=400000)]},
}

LEVEL = {k: 'exploration' for k in ['C03', 'C04', 'C05', 'C06', 'C07', 'C08', 'C09', 'C10', 'C13', 'C14', 'C17', 'C18', 'C19']}
LEVEL['C12'] = 'fault_enumeration'

RULE = {}

REAL_STUB = {
    'default': {
        'real': ['lib/texellib (search, transposition table, evaluation, move generation, tablebase generator, book)',
                 'app/texel (UCIProtocol, EngineControl, EngineMainThread, WorkerThread/Communicator)', 'libstdc++ thread/mutex/condition_variable front ends'],
        'simulated': ['OS scheduler (baton scheduler decides every interleaving)', 'all clocks, sleeps and timed waits (virtual clock)',
                      'stdin/stdout (stream buffers) and the GUI (script interpreter)', 'large allocations (failure injection only)',
                      'network weights (synthetic nets built with NetData::save)'],
        'absent': ['MPI cluster layer', 'NUMA / large pages', 'Gaviota / Syzygy files'],
    }
}

def _rs(real, simulated, absent):
    return {'real': real, 'simulated': simulated, 'absent': absent}

REAL_STUB.update({
    'C08': _rs(['TranspositionTable (insert/probe/setBusy/clear/reSize/nextGeneration/updateTB), TBGenerator<TTStorage>', 'std::thread/mutex front ends of libstdc++'],
               ['caller threads are harness threads under the baton scheduler; scheduler switch points between the two atomic accesses of every slot store/load (hook)', 'no search, no evaluation: payloads are synthetic unique records'],
               ['search, UCI layer']),
    'C12': _rs(['TBGenerator<TTStorage>, TBGenerator<VectorStorage>, TranspositionTable::updateTB/probeDTM/insert/probe/clear'],
               ['virtual clock (clock reads are the generation\'s polling points)', 'stop request / expired time limit injected by a scheduler actor at an enumerated sim step', 'hash traffic is synthetic'],
               ['search, UCI layer, external tablebase files']),
    'C17': _rs(['UCIProtocol tokenizer/dispatch, TextIO::readFEN/uciStringToMove on the damaged command lines, whole engine behind them; PgnReader/PgnScanner/GameTree'],
               ['stdin transport with byte-level faults; std::istream over a stream buffer that refills 1..k bytes, truncated/corrupted PGN bytes'],
               ['move text / PGN round-trip half of C17 (not decided here)']),
    'C18': _rs(['Book::getBookMove/getAllBookMoves/getBookEntries (std::fstream on real files), PolyglotBook::getMove/deSerialize/getHashKey, built-in book; in C18S the whole engine with OwnBook/BookFile'],
               ['file layer: per-run polyglot files written, damaged, removed and replaced by the harness between probes and between searches; virtual clock (Book::rndGen seed)'],
               ['dynamic I/O errors inside one probe (EIO, short reads)']),
    'C19': _rs(['BookBuild::Book (addRootNode, addPosToBook, setSearchResult/updateScores, pending marks, writeToFile/readFromFile, writeBackup) and BookNode through the declared test friend'],
               ['search results are injected (no engine searches); disk = backup log copied and cut at an arbitrary byte, then loaded into a fresh Book (crash-restart)'],
               ['extendBook / SearchScheduler worker threads, PGN import, polyglot export']),
    'C09': _rs(REAL_STUB['default']['real'] + ['ProofGameFilter with its ThreadPool (C09PG)'], REAL_STUB['default']['simulated'] + ['ThreadSanitizer build: the scheduler is not instrumented and adds no happens-before edges'], REAL_STUB['default']['absent']),
})

ASSUMPTIONS = {
    'default': ['pre-emption happens only at intercepted synchronisation calls, clock reads, stream appends, node ticks and TT access points',
                'sequentially consistent interleavings at that granularity (no weak-memory reorderings beyond those listed in DESIGN.md 3.5)',
                "legality oracle = the repo's own MoveGen/TextIO (C01/C17 are not decided here)",
                'synthetic evaluation networks, not the shipped weights (emptied in this snapshot)'],
}
