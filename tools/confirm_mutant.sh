#!/bin/bash
# usage: confirm_mutant.sh <patch.diff> <tag>
# Confirms that a seeded change compiles with the guard off and that the repository's stable baseline tests
# still pass with it (scratch worktree outside /repo and /verif, removed afterwards).
set -u
PATCH=$(readlink -f "$1"); TAG=$2
WT=/tmp/vconf_$TAG
git -C /repo worktree add -q --detach $WT HEAD || exit 3
cd $WT
git apply "$PATCH" || { echo "PATCH-DOES-NOT-APPLY"; git -C /repo worktree remove --force $WT; exit 3; }
cmake -G Ninja -B _build -S . >/dev/null 2>&1 && cmake --build _build -j8 >/tmp/vconf_$TAG.build.log 2>&1 || { echo "BUILD-FAILED"; tail -5 /tmp/vconf_$TAG.build.log; git -C /repo worktree remove --force $WT; exit 4; }
ctest --test-dir _build -j8 --timeout 900 --output-junit /tmp/vconf_$TAG.junit.xml >/dev/null 2>&1
python3 - "$TAG" <<'PY'
import json,sys,xml.etree.ElementTree as ET
tag=sys.argv[1]
b=json.load(open('/root/.vp/BASELINE.json'))
stable=set(x.split('::')[0] for x in b['stable_pass'] if '.' in x.split('::')[0])
res={}
for tc in ET.parse('/tmp/vconf_%s.junit.xml'%tag).getroot().iter('testcase'):
    res[tc.get('name')] = tc.find('failure') is None and tc.get('status','run')!='fail'
bad=[s for s in sorted(stable) if not res.get(s,False)]
print('BASELINE-TESTS: %d/%d stable tests pass with the change%s' % (len(stable)-len(bad), len(stable), '' if not bad else ' FAILING: '+' '.join(bad[:8])))
PY
git -C /repo worktree remove --force $WT
