import json,collections,sys
c=collections.Counter(); ex={}; wall=0; n=0
for l in open(sys.argv[1]):
    j=json.loads(l); n+=1; wall+=j['wall_ms']
    r=j.get('r')
    if j['status']!='exit0': k=('STATUS',j['status'])
    elif r['verdict']!='ok': k=(r['property'],r['vclass'])
    else: k=('ok',)
    c[k]+=1
    ex.setdefault(k,(j['seed'],(r or {}).get('detail','')[:400], j.get('stderr','')[:400]))
print('runs',n,'wall_s',wall/1000)
for k,v in c.most_common(): print(v,k,ex[k])
