#!/bin/bash
# Runs the repository's own test suite with the verification guard OFF (TEXEL_VERIF undefined),
# exactly as the shipped CMake build does. Results are comparable to /root/.vp/BASELINE.json.
set -e
cd /repo
if [ ! -f _build/build.ninja ]; then cmake -G Ninja -B _build -S . >/dev/null; fi
cmake --build _build >/dev/null
if grep -q "TEXEL_VERIF" _build/build.ninja; then echo "guard unexpectedly on"; exit 1; fi
ctest --test-dir _build -j8 --timeout 900 --output-junit /tmp/texel_baseline_junit.xml | tail -15
