#!/usr/bin/env python3
"""Writes /verif/MANIFEST.json from the table below (single source of truth for claimed checks)."""
import json, os, subprocess
ROOT = os.path.dirname(os.path.dirname(os.path.abspath(__file__)))

SIM = 'deterministic simulation (seeded baton scheduler over real threads, virtual clock, simulated stdin/stdout/GUI) with fault injection; '

CLAIMED = {
 'C03': dict(cat='exploration', ref='5/C03', tech=SIM + 'legality/score oracle over recorded UCI history; stop placement, TT key-collision injection',
      text='Seeded search over sessions x schedules x fault plans (stop at arbitrary sim steps incl. inside iteration 1, injected 64-bit key collisions, allocation failure, helper interleavings for Threads 1..8). Every bestmove/ponder/pv/score line of every search is checked against the legal move lists of that search\'s root position. Evidence, not proof: sampling.',
      note="Trusted: repo MoveGen/TextIO for legality (C01 not decided here), synthetic evaluation networks, the UCI model in sim/uci_oracle.cpp."),
 'C04': dict(cat='exploration', ref='5/C04', tech=SIM + 'depth-limited full-strength searches with Threads 1..4 under seeded schedules; independent retrograde DTM oracle for <=4-man pawnless roots, exhaustive AND/OR solver for claims of mate in <= 3, explicit mate-in-one detection',
      text='Every printed winning mate score (exact or lower bound) is checked: with the DTM oracle for <=4-man pawnless roots (true distance <= N), with an exhaustive solver when N <= 3 elsewhere (larger claims outside the tables are counted as unverified, never as passed); a bestmove delivered with a mate score must keep a forced mate; a final losing mate score of a completed search must be a real forced loss within N; if a mate in one exists every completed depth must end with mate 1 and a mating move (promotion, discovered, castling-rights and en-passant positions included).',
      note='Threads > 1 is where the schedule matters (helpers store mate scores at other plies into the shared table). Trusted: dtm_oracle, the solver over the repo move generator (C01 not decided here). Evidence lists verified vs unverified claim counts.'),
 'C05': dict(cat='exploration', ref='5/C05', tech=SIM + 'reference model of the UCI session contract checked over the event-ordered history; plain and ASan/UBSan flavours',
      text='Grammar-generated command sequences (1..60 commands, any order, incl. before initialisation and during searches) released after virtual delays, sim-step counts or output patterns; oracle counts readyok/bestmove per isready/go in event order, enforces release rules for infinite/ponder, line grammar, no search output after bestmove, clean exit with all threads joined; crashes and sanitizer reports are violations.',
      note='Trusted: the UCI model (mirrors the dispatch on the first token), per-append stdout model (one append per stream insertion), step/node budgets for hang detection.'),
 'C06': dict(cat='exploration', ref='5/C06', tech=SIM + 'virtual clock driven by engine-thread node ticks; oracle on limit-hook events and node counts after the deadline',
      text='Timed searches over the whole time-control space under a virtual clock in which elapsed time is an exact function of the engine thread\'s own work; checks 1<=soft<=hard<=budget for every limit pair and that at most one polling interval of main-search nodes follows the deadline, stop, or ponderhit with exhausted limits.',
      note='Allowance is expressed in engine-thread main-search node ticks (derived from the code\'s polling structure), helpers are arbitrarily fast/slow, no clock faults in this class.'),
 'C12': dict(cat='fault_enumeration', ref='5/C12', tech='deterministic simulation of the tablebase generator under a virtual clock with enumerated abort points (stop request / expired time limit injected at every sim step of the generation), then hash traffic; independent retrograde DTM oracle',
      text='For every 3-man pawnless class and both colour assignments: the un-aborted generation (both storage back ends) is compared with an independent distance-to-mate oracle on EVERY legal placement and both sides to move, and EVERY abort point of the generation (each clock read / iteration boundary, both as stop and as expired time limit) is taken once, followed by hash traffic, a sweep of probeDTM and a regeneration. 4-man classes are sampled (2 in quick, all 20 in thorough).',
      note='Trusted: sim/dtm_oracle.cpp (own move generator and retrograde analysis, cross-checked against published longest mates KQK 10, KRK 16, KBNK 33, KQKR 35); the abort can only land at the generation\'s own polling points (its clock reads and per-iteration stop test), which is where the real asynchronous stop becomes visible to it.'),
 'C13': dict(cat='exploration', ref='5/C13', tech=SIM + 'sessions on <=4-man pawnless roots that build the on-demand table inside the run under the virtual clock; independent retrograde DTM oracle for score, 50-move margin and the move played',
      text='go infinite on random placements of 3-man (and sampled 4-man) classes with half-move clocks 0..99, Hash 8..64, Threads 1..4, run until the search ends by itself or a tick budget, then stop; settled results (depth >= reported mate distance) must equal the exact distance, drawn roots must not show mate scores, mates that cannot be completed before the 50-move limit are not announced (3-man), the move played follows a shortest mate and never turns a draw into a loss; also stop-during-generation followed by new searches.',
      note='Trusted: sim/dtm_oracle.cpp. Results of searches that were cut before reaching the depth of the reported mate are only checked for consistency (never shorter than exact, right sign).'),
 'C14': dict(cat='exploration', ref='5/C14', tech=SIM + 'refinement check: probe search after (generated history + Clear Hash) vs. the same probe in a fresh engine process with the same option history, and vs. the same history under another schedule/clock',
      text='Seeded histories of 1..40 searches of all limit kinds (unrelated positions, earlier positions of the probe game, 3-man roots that build/abort on-demand tables, ucinewgame, option changes), then Clear Hash and a depth- or node-limited probe with one thread; the probe transcript (score lines without time/nps, node counts, bestmove) must equal that of a fresh engine.',
      note='Probe is restricted to full strength (Strength=1000, no MaxNPS/LimitStrength): reduced-strength play is seeded from the clock at ucinewgame by design. time/nps/hashfull fields and time-triggered currmove/stat lines are not compared.'),
 'C07': dict(cat='exploration', ref='5/C07', tech=SIM + 'evaluation hook inside the real searches compares every evaluation (computed or cached) with an independent from-scratch evaluator; the same seeds are executed in the generic/SSSE3/AVX2/AVX-512 builds and their event-log hashes compared; plus seeded histories of the operations a search applies to one position/evaluator pair (C07H, no scheduler involved)',
      text='At every static evaluation the real (simulated, Threads 1..8) searches perform - reached through the search\'s own make/unmake/null-move/copy sequences - a thread-local oracle evaluator with its own tables evaluates a FEN-rebuilt copy from scratch; values must be equal, also on cache hits (stale cache entries), after contempt changes and side changes; 1/8 of the calls also check colour-swap (contempt negated) and left-right mirror symmetry. Because one seed is one execution, schedule and stdout hashes of the same seeds must be identical in all SIMD build variants.',
      note='Three synthetic networks (material-like, random, extreme weights), not the shipped weights. Positions are those real searches visit; uniformly generated positions are left to other techniques (DESIGN.md 5/C07). AVX-512 variant runs only if the CPU supports it (it does here).'),
 'C08': dict(cat='exploration', ref='5/C08', tech='deterministic simulation of 2..16 threads on one TranspositionTable with a scheduler switch point between the key word and the data word of every slot store and load; registry oracle of every record ever stored per key',
      text='Simulated threads hammer one or two buckets (keys that share top and low index bits) with unique payloads while the scheduler may switch threads between the two relaxed atomic accesses of every store and load; a probe hit must return a data word that was stored as one unit for exactly that key, mate scores must shift by exactly the ply difference, every bucket index (hook) must satisfy idx%4==0 and idx+3<usedSize<=tableSize for all allocated sizes incl. non-powers of two and the reduced size with a resident tablebase (index sweep over all 2^16 top-bit values), and the bytes of a resident tablebase must be unchanged by insert traffic. Plain and ASan/UBSan flavours.',
      note='Memory model: sequentially consistent interleavings of the individual atomic accesses (covers every (key word, data word) combination two independent relaxed words can expose); TTEntry field packing is trusted (single-threaded code covered by the unit tests). The relaxed-store reordering hook of DESIGN.md 3.5 was dropped: the yield between the halves already produces both torn combinations.'),
 'C09': dict(cat='exploration', ref='5/C09', tech='deterministic simulation (seeded baton scheduler invisible to ThreadSanitizer) of UCI sessions with 2..8 threads and of the proof-game filter worker pool in a TSan build; ThreadSanitizer happens-before analysis is the invariant',
      text='Short sessions with Threads 2..8, searches started/stopped/pondered, options changed between and during searches, ucinewgame, Clear Hash on >16 MB tables (thread pool), quit during search, under seeded schedules; plus ProofGameFilter with 2..16 workers whose output must also equal the one-worker output. Any ThreadSanitizer report is a violation whose seed replays the same schedule.',
      note='The scheduler TU is not TSan-instrumented and hands over with raw futexes, so it adds no happens-before edges; harness-namespace frames (sess::, vsim::, ...) are suppressed, repository code never is. Detection power = TSan happens-before analysis on the sampled schedules (a race hidden behind an incidental lock edge in one schedule is found in another).'),
 'C17': dict(cat='exploration', ref='5/C17', tech=SIM + 'stdin transport faults (flipped/inserted/deleted bytes, truncated, merged and duplicated lines, 4 KiB garbage lines, bytes >= 0x80 and NUL, damaged numbers, squares and tokens) on otherwise valid UCI sessions in the ASan/UBSan flavour; PGN read through stream buffers with 1..k-byte refills and through truncated/corrupted streams',
      text='ONLY the stream-facing half of C17 (its second sentence) is decided here: corrupted UCI command lines and PGN streams are parsed or rejected without crash, hang or sanitizer report; the session contract (readyok/bestmove counting for the commands as delivered, clean exit) still holds; a well-formed PGN delivered in arbitrarily short reads parses to an equal tree; truncated/corrupted PGN streams return or throw ChessParseError. The round-trip half (move text and PGN round-trips for every position and move) is a pure function of its input and is NOT decided by this check.',
      note='Corruptions are generated from valid sessions (mutation-based), so deeply nested parser states are reached; uniformly random byte strings as FEN/move text via the API are outside this check.'),
 'C18': dict(cat='exploration', ref='5/C18', tech='simulated file layer with fault injection (truncation at any byte, byte/bit flips, zeroed blocks, swapped/reversed records, empty/odd-length/garbage/missing file, replacement between probes and between searches) under the real Book class and under UCI sessions with OwnBook; reference polyglot encoder/decoder as oracle',
      text='Polyglot books are generated from random lines (duplicates, zero weights, castling in king-takes-rook encoding, promotions, noise records), written to a per-run file and damaged by the fault plan; every probe of every position along and off the lines must return no move or a legal move (ASan/UBSan flavour: no memory error); with the well-formed file returned moves must be stored under the position key, every stored move must be listed, zero-weight moves are not drawn; in sessions the bestmove is legal whether it came from the book or from the search while the file is damaged, removed or restored between searches.',
      note='Polyglot key computation is taken from the repo (covered by PolyglotTest vectors); move encoding/decoding is re-implemented in the harness. Dynamic I/O errors (EIO/short read in the middle of one probe) are not injected; content faults and replacement between probes are.'),
 'C19': dict(cat='exploration', ref='5/C19', tech='seeded operation sequences with crash-restart fault injection on BookBuild::Book through the declared test friend; after every operation a complete scan of the defining equations of every node against an independent reference graph; simulated disk = backup log cut at an arbitrary byte of its appended tail',
      text='Random sequences of {add position under any node (transpositions add parents), set search result (normal, mate, game over, ignore), pending marks, writeToFile/readFromFile, crash-restart}; after EVERY operation EVERY node is checked: negamax equation, both expansion costs, both path errors, depth = breadth-first distance in the reference graph, children/parents mutually consistent and equal to the reference edges (all legal-move links between book positions); reloaded books must have the same graph and values; a book rebuilt from a backup log cut at any byte (torn last record) must equal the reference built from exactly the records fully contained in the prefix.',
      note='The header defines negamax and expansion cost; the local rule for path errors is transcribed from computePathError (the header is silent), the oracle adds the global part: every node after every history. extendBook\'s multi-threaded scheduler is not driven (needs engine searches per node). Crash cuts are restricted to the appended tail of the backup log (DESIGN.md 5/C19).'),
 'C10': dict(cat='exploration', ref='5/C10', tech=SIM + 'PCT-style and random schedulers with bounded unfairness, spurious wake-ups, stalls; safety + bounded-liveness + quiescence oracle',
      text='Control scripts (go/finish, go/stop, ponder/ponderhit, ponder/stop, back-to-back go, Threads changes, quit/EOF during search) with Threads 1..8 and tiny searches; every command is released at a chosen sim step so it meets the engine at every stage; exactly one legal bestmove per go, no simulator deadlock, all threads parked after the last bestmove (wait_idle), all threads joined at exit. Exhaustive bounded pre-emption search is NOT done; PCT sampling is the substitute.',
      note='Liveness judged with step/node budgets under schedulers with a starvation bound; pre-emption only at intercepted sync points, clock reads, stream appends, node ticks.'),
}

NA = {
 'C01': 'Pure function of the position (move generation): no schedule, clock, I/O or fault dimension for a simulator to control; see DESIGN.md section 6.',
 'C02': 'Make/unmake/serialise invariants of a single-threaded value type; plain operation sequences with nothing nondeterministic or faulty in them (DESIGN.md section 6).',
 'C11': 'Draw recognition is a deterministic function of (history list, position); no time, schedule or fault dependence (DESIGN.md section 6).',
 'C15': 'Reverse move generation is a pure function of the position (DESIGN.md section 6).',
 'C16': 'Proof-game verdicts/bounds are pure functions of the target position; the worker pool only fans out independent inputs (DESIGN.md section 6).',
 'C20': 'The constraint solver is a pure function of the constraint system (DESIGN.md section 6).',
}
PENDING = {}
for pid in []:
    PENDING[pid] = 'check designed (DESIGN.md section 5) but not yet built/gated in this tree; not claimed until it passes its determinism and sensitivity gates'

def main():
    hooks = subprocess.run(['git', '-C', '/repo', 'log', '--format=%H %s'], stdout=subprocess.PIPE, text=True).stdout.strip().split('\n')
    hook_commits = [l.split()[0] for l in hooks if 'verif hooks (TEXEL_VERIF)' in l]
    checks = []
    import sys
    sys.path.insert(0, os.path.join(ROOT, 'tools'))
    from plans import PLANS
    for pid in sorted(CLAIMED):
        if pid not in PLANS:
            continue
        c = CLAIMED[pid]
        checks.append({
            'property_id': pid,
            'quick_cmd': './check %s quick' % pid,
            'thorough_cmd': './check %s thorough' % pid,
            'evidence_file': '/verif/evidence/%s.json' % pid,
            'replay_cmd_template': './check replay {path}',
            'engine': 'texelsim',
            'level_claimed': {'category': c['cat'], 'text': c['text'], 'design_ref': 'DESIGN.md section ' + c['ref']},
            'level_note': c['note'],
            'technique': c['tech'],
        })
    na = [{'property_id': k, 'reason': v} for k, v in sorted(NA.items())]
    na += [{'property_id': k, 'reason': v} for k, v in sorted(PENDING.items()) if k not in [c['property_id'] for c in checks]]
    m = {
        'version': 1,
        'setup_cmd': './setup.sh',
        'hooks': {
            'guard': 'TEXEL_VERIF',
            'enable': 'the harness Makefile (/verif/Makefile) compiles /repo sources with -DTEXEL_VERIF and links them with the simulator using -Wl,--wrap=pthread_*,nanosleep,clock_gettime,malloc and -static-libstdc++',
            'baseline_off_cmd': '/verif/tools/baseline_off.sh',
            'source_commits': hook_commits,
            'add_only': True,
        },
        'engines': [{'name': 'texelsim', 'path': '/verif/sim', 'serves_properties': [c['property_id'] for c in checks],
                     'kind_free_text': 'deterministic simulator: real pthreads parked/released one at a time by a seeded scheduler at intercepted synchronisation points (link-time --wrap), virtual clock, simulated stdin/stdout/GUI/files, fault injection, fork-per-run, replay files, ddmin minimisation'}],
        'checks': checks,
        'not_applicable': na,
        'notes': 'All checks share one binary per build flavour (plain g++, clang ASan+UBSan, clang TSan) built by `make FLAVOUR=...` from /repo\'s working tree. Exit 0 = held, 1 = VIOLATION line, 2 = harness error (never reported as a violation). Known findings: /verif/known_findings.txt.',
    }
    with open(os.path.join(ROOT, 'MANIFEST.json'), 'w') as f:
        json.dump(m, f, indent=1)
    print('wrote MANIFEST.json with', len(checks), 'checks')

if __name__ == '__main__':
    main()
