#!/bin/bash
# usage: mutant_test.sh <patch.diff> <property> [quick|thorough]
# Applies the patch to a scratch worktree of /repo (outside /repo and /verif), runs the property's check against
# it with separate build/evidence/replay directories, prints the check output, and removes the worktree again.
set -u
PATCH=$(readlink -f "$1"); PROP=$2; TIER=${3:-quick}
WT=/tmp/vmut_$$; OUTD=/tmp/vmut_$$_out
git -C /repo worktree add -q --detach $WT HEAD || exit 3
( cd $WT && git apply "$PATCH" ) || { echo "PATCH-DOES-NOT-APPLY"; git -C /repo worktree remove --force $WT; exit 3; }
mkdir -p $OUTD
cd /verif
VERIF_REPO=$WT VERIF_BUILDROOT=$OUTD/build VERIF_OUT=$OUTD ./check $PROP $TIER
rc=$?
echo "mutant check exit code: $rc"
[ -d $OUTD/replays ] && ls $OUTD/replays | head -5
git -C /repo worktree remove --force $WT
rm -rf $OUTD
exit $rc
