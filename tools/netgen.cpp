// Builds synthetic evaluation networks with the repo's own NetData::save + Lzma86_Encode, because the
// shipped weights file is emptied in this snapshot. Kinds: material, random, extreme.
#include "nntypes.hpp"
#include "random.hpp"
#include <fstream>
#include <sstream>
#include <vector>
#include <cstring>
#include <iostream>
extern "C" {
#include "Lzma86Enc.h"
}
// dummy incbin symbols so texellib links
extern "C" { extern const unsigned char gNNDataData[1]; extern const unsigned int gNNDataSize; const unsigned char gNNDataData[1] = {0}; const unsigned int gNNDataSize = 0; }

int main(int argc, char** argv) {
    if (argc < 3) { std::cerr << "usage: netgen kind out [seed]\n"; return 2; }
    std::string kind = argv[1]; std::string out = argv[2]; U64 seed = argc > 3 ? atoll(argv[3]) : 1;
    auto netP = NetData::create(); NetData& net = *netP;
    memset((void*)&net, 0, sizeof(NetData));
    Random rnd(seed);
    auto ri = [&](int lo, int hi) { return lo + (int)(rnd.nextU64() % (U64)(hi - lo + 1)); };
    static const int val[5] = {36, 20, 13, 12, 4}; // Q R B N P
    const bool random = kind == "random", extreme = kind == "extreme";
    for (int k = 0; k < 32; k++) for (int pt = 0; pt < 10; pt++) for (int sq = 0; sq < 64; sq++) {
        int row = (k*10+pt)*64+sq;
        int x = sq & 7, y = sq >> 3;
        int center = 3 - std::max(std::abs(2*x-7), std::abs(2*y-7))/2; // 0..3
        if (pt < 5) { net.weight1(row, 0) = val[pt]*4; net.weight1(row, 2) = center*2 + (pt==4 ? y*2 : 0); }
        else        { net.weight1(row, 1) = val[pt-5]*4; net.weight1(row, 3) = center*2 + (pt==9 ? (7-y)*2 : 0); }
        if (random) for (int j = 4; j < NetData::n1; j++) net.weight1(row, j) = ri(-20, 20);
        if (extreme) for (int j = 4; j < NetData::n1; j++) { static const int ev[5] = {-900, -300, 0, 300, 900}; net.weight1(row, j) = ev[ri(0, 4)]; }
    }
    for (int j = 0; j < NetData::n1; j++)
        net.bias1(j) = (j < 4) ? 0 : random ? ri(0, 199) : extreme ? ri(-1000, 1000) : 0;
    for (auto& h : net.head) {
        for (int i = 0; i < 4; i++) h.lin2.weight(i, i) = 64;
        if (random) for (int o = 4; o < NetData::n2; o++) for (int i = 0; i < 2*NetData::n1; i++) h.lin2.weight(o, i) = ri(-4, 4);
        if (extreme) for (int o = 4; o < NetData::n2; o++) { for (int i = 0; i < 2*NetData::n1; i++) h.lin2.weight(o, i) = ri(0, 3) ? ri(-127, 127) : (ri(0,1) ? 127 : -128); h.lin2.bias(o) = ri(-100000, 100000); }
        for (int i = 0; i < 4; i++) h.lin3.weight(i, i) = 64;
        if (random) for (int o = 4; o < NetData::n3; o++) for (int i = 0; i < NetData::n2; i++) h.lin3.weight(o, i) = ri(-8, 8);
        if (extreme) for (int o = 4; o < NetData::n3; o++) { for (int i = 0; i < NetData::n2; i++) h.lin3.weight(o, i) = ri(-128, 127); h.lin3.bias(o) = ri(-20000, 20000); }
        h.lin4.weight(0, 0) = 100; h.lin4.weight(0, 1) = -100; h.lin4.weight(0, 2) = 20; h.lin4.weight(0, 3) = -20;
        if (random) for (int i = 4; i < NetData::n3; i++) h.lin4.weight(0, i) = ri(-3, 3);
        if (extreme) for (int i = 4; i < NetData::n3; i++) h.lin4.weight(0, i) = ri(-40, 40);
    }
    std::stringstream ss; net.save(ss); std::string raw = ss.str();
    std::vector<unsigned char> dst(raw.size() + raw.size()/3 + 1024); size_t dstLen = dst.size();
    int res = Lzma86_Encode(dst.data(), &dstLen, (const unsigned char*)raw.data(), raw.size(), 1, 1<<20, SZ_FILTER_NO);
    if (res != 0) { std::cerr << "encode failed " << res << std::endl; return 1; }
    std::ofstream os(out, std::ios::binary); os.write((const char*)dst.data(), dstLen);
    std::cerr << kind << ": raw " << raw.size() << " compressed " << dstLen << std::endl;
    return 0;
}
