# Builds the simulation harness against /repo's CURRENT working tree (hooks on).
# usage: make FLAVOUR=plain|asan|tsan  [-j16]
REPO ?= /repo
FLAVOUR ?= plain
BUILDROOT ?= build
# always absolute: the generated .d files name their targets by this path, so relative and absolute invocations must agree
B := $(abspath $(BUILDROOT)/$(FLAVOUR))
SIMD ?=

TL := $(REPO)/lib/texellib
UL := $(REPO)/lib/texelutillib
INC := -I$(TL) -I$(TL)/book -I$(TL)/debug -I$(TL)/hw -I$(TL)/nn -I$(TL)/tb -I$(TL)/util \
       -I$(TL)/tb/gtb/sysport -I$(TL)/tb/gtb/compression -I$(TL)/tb/gtb/compression/lzma \
       -I$(UL) -I$(UL)/pg -I$(REPO)/app/texel -Isim
DEFS = -DHAS_RT -DTEXEL_VERIF $(SIMD)

ifeq ($(FLAVOUR),plain)
  CXX := g++
  CC := gcc
  OPT := -O3 -g1
  SAN :=
  SIMSAN :=
endif
# SIMD build variants of the plain flavour (C07: the same seeds must give the same event-log hashes)
ifeq ($(FLAVOUR),plain-ssse3)
  CXX := g++
  CC := gcc
  OPT := -O3 -g1 -mssse3
  SIMD := -DUSE_SSSE3
  SAN :=
  SIMSAN :=
endif
ifeq ($(FLAVOUR),plain-avx2)
  CXX := g++
  CC := gcc
  OPT := -O3 -g1 -mssse3 -mavx2
  SIMD := -DUSE_SSSE3 -DUSE_AVX2
  SAN :=
  SIMSAN :=
endif
ifeq ($(FLAVOUR),plain-avx512)
  CXX := g++
  CC := gcc
  OPT := -O3 -g1 -mssse3 -mavx2 -mavx512f -mavx512bw -mavx512vnni
  SIMD := -DUSE_SSSE3 -DUSE_AVX2 -DUSE_AVX512
  SAN :=
  SIMSAN :=
endif
ifeq ($(FLAVOUR),asan)
  CXX := clang++
  CC := clang
  OPT := -O1 -g1 -fno-omit-frame-pointer
  SAN := -fsanitize=address,undefined -fno-sanitize-recover=undefined
  SIMSAN := $(SAN)
endif
ifeq ($(FLAVOUR),tsan)
  CXX := clang++
  CC := clang
  OPT := -O1 -g1 -fno-omit-frame-pointer
  SAN := -fsanitize=thread
  SIMSAN :=
endif

CXXFLAGS = -std=c++11 $(OPT) -Wall -Wno-misleading-indentation -Wno-unused-result -Wno-psabi -Wno-unknown-warning-option -Wno-unused-private-field -Wno-deprecated-declarations $(DEFS) $(INC)
CFLAGS = $(OPT) $(DEFS) $(INC) -w

WRAPS := pthread_mutex_lock pthread_mutex_trylock pthread_mutex_unlock pthread_cond_wait pthread_cond_timedwait \
         pthread_cond_clockwait pthread_cond_signal pthread_cond_broadcast pthread_create pthread_join \
         nanosleep clock_nanosleep clock_gettime malloc
WRAPFLAGS := $(foreach w,$(WRAPS),-Wl,--wrap=$(w))

# repo sources (discovered at make time so that new files are picked up)
TL_CPP := $(filter-out %/nndata.cpp,$(wildcard $(TL)/*.cpp $(TL)/book/*.cpp $(TL)/debug/*.cpp $(TL)/hw/*.cpp $(TL)/nn/*.cpp $(TL)/tb/*.cpp $(TL)/util/*.cpp $(TL)/tb/syzygy/*.cpp))
TL_C := $(TL)/tb/gtb/compression/lzma/Lzma86Dec.c $(TL)/tb/gtb/compression/lzma/LzFind.c $(TL)/tb/gtb/compression/lzma/Lzma86Enc.c \
        $(TL)/tb/gtb/compression/lzma/LzmaDec.c $(TL)/tb/gtb/compression/lzma/Alloc.c $(TL)/tb/gtb/compression/lzma/Bra86.c \
        $(TL)/tb/gtb/compression/lzma/LzmaEnc.c $(TL)/tb/gtb/compression/wrap.c $(TL)/tb/gtb/gtb-dec.c $(TL)/tb/gtb/gtb-att.c \
        $(TL)/tb/gtb/sysport/sysport.c $(TL)/tb/gtb/gtb-probe.c
UL_CPP := $(wildcard $(UL)/*.cpp $(UL)/pg/*.cpp)
APP_CPP := $(REPO)/app/texel/enginecontrol.cpp $(REPO)/app/texel/uciprotocol.cpp
SIM_CPP := $(filter-out sim/vsim.cpp,$(wildcard sim/*.cpp))

obj = $(patsubst %,$(B)/%.o,$(subst /,_,$(patsubst $(REPO)/%,%,$(1))))
TL_OBJ := $(call obj,$(TL_CPP)) $(call obj,$(TL_C))
UL_OBJ := $(call obj,$(UL_CPP))
APP_OBJ := $(call obj,$(APP_CPP))
SIM_OBJ := $(call obj,$(SIM_CPP))
VSIM_OBJ := $(B)/sim_vsim.cpp.o

all: $(B)/texelsim

$(B)/texelsim: $(TL_OBJ) $(UL_OBJ) $(APP_OBJ) $(SIM_OBJ) $(VSIM_OBJ)
	$(CXX) $(SAN) -o $@ $^ -static-libstdc++ $(WRAPFLAGS) -lpthread -lrt

define rule_cpp
$(call obj,$(1)): $(1) | $(B)
	$$(CXX) $$(CXXFLAGS) $(2) -MMD -MP -c $$< -o $$@
endef
define rule_c
$(call obj,$(1)): $(1) | $(B)
	$$(CC) $$(CFLAGS) $(2) -MMD -MP -c $$< -o $$@
endef
$(foreach s,$(TL_CPP) $(UL_CPP) $(APP_CPP),$(eval $(call rule_cpp,$(s),$$(SAN))))
$(foreach s,$(TL_C),$(eval $(call rule_c,$(s),$$(SAN))))
$(foreach s,$(SIM_CPP),$(eval $(call rule_cpp,$(s),$$(SIMSAN))))
$(eval $(call rule_cpp,sim/vsim.cpp,$$(SIMSAN)))

$(B):
	mkdir -p $(B)

# ---- synthetic networks (built once, plain g++) ----
NETGEN_SRC := tools/netgen.cpp $(TL)/nn/nntypes.cpp $(TL)/util/random.cpp $(TL)/util/util.cpp $(TL)/util/timeUtil.cpp
nets: build/nets/material.compr build/nets/random.compr build/nets/extreme.compr
build/netgen: $(NETGEN_SRC) $(TL_C)
	mkdir -p build
	g++ -std=c++11 -O2 $(DEFS) $(INC) -c tools/netgen.cpp -o build/netgen_main.o
	g++ -std=c++11 -O2 -DHAS_RT $(INC) -c $(TL)/nn/nntypes.cpp -o build/netgen_nntypes.o
	g++ -std=c++11 -O2 -DHAS_RT $(INC) -c $(TL)/util/random.cpp -o build/netgen_random.o
	g++ -std=c++11 -O2 -DHAS_RT $(INC) -c $(TL)/util/util.cpp -o build/netgen_util.o
	g++ -std=c++11 -O2 -DHAS_RT $(INC) -c $(TL)/util/timeUtil.cpp -o build/netgen_time.o
	for f in Lzma86Enc LzmaEnc LzFind Alloc Bra86; do gcc -O2 -w $(INC) -c $(TL)/tb/gtb/compression/lzma/$$f.c -o build/netgen_$$f.o; done
	g++ -o $@ build/netgen_*.o -lrt -lpthread
build/nets/%.compr: build/netgen
	mkdir -p build/nets
	build/netgen $* $@ 1

clean:
	rm -rf build/$(FLAVOUR)

-include $(wildcard $(B)/*.d)
.PHONY: all nets clean
