// C07: static evaluation is a pure, symmetric function of the position.
// Monitor inside real (simulated) searches: at every evaluation the engine performs (hook verif_eval, also on
// cache hits) an independent evaluator with its own tables evaluates the same position from scratch.
#include "common.hpp"
#include "session.hpp"
#include "uci_oracle.hpp"
#include "posgen.hpp"
#include "gen_util.hpp"
#include "evaluate.hpp"
#include "textio.hpp"
#include <memory>

namespace sess { bool ttIndexViolation(std::string& detail); }
using vf::Rng;
using vf::Scenario;
using namespace gu;

namespace {

struct Oracle {
    std::unique_ptr<Evaluate::EvalHashTables> et;
    long calls = 0;
};
thread_local Oracle* tlsOracle = nullptr;
thread_local bool inOracle = false;

// shared counters (serialised by the baton)
long g_evalChecks = 0, g_cacheHitChecks = 0, g_colourChecks = 0, g_mirrorChecks = 0, g_mismatch = 0;
std::string g_firstMismatch, g_mismatchClass;
uint64_t g_sampleState = 88172645463325252ULL;
int g_symEvery = 8;

Position colourSwapped(const Position& p) {
    Position q;
    for (int s = 0; s < 64; s++) {
        int pc = p.getPiece(Square(s));
        if (pc == Piece::EMPTY) continue;
        int npc = Piece::isWhite(pc) ? Piece::makeBlack(pc) : Piece::makeWhite(pc);
        q.setPiece(Square(s ^ 56), npc);
    }
    q.setWhiteMove(!p.isWhiteMove());
    int cm = p.getCastleMask(), ncm = 0;
    if (cm & (1 << Position::A1_CASTLE)) ncm |= 1 << Position::A8_CASTLE;
    if (cm & (1 << Position::H1_CASTLE)) ncm |= 1 << Position::H8_CASTLE;
    if (cm & (1 << Position::A8_CASTLE)) ncm |= 1 << Position::A1_CASTLE;
    if (cm & (1 << Position::H8_CASTLE)) ncm |= 1 << Position::H1_CASTLE;
    q.setCastleMask(ncm);
    if (p.getEpSquare().isValid()) q.setEpSquare(Square(p.getEpSquare().asInt() ^ 56));
    q.setHalfMoveClock(p.getHalfMoveClock());
    q.setFullMoveCounter(p.getFullMoveCounter());
    return q;
}

Position mirroredLR(const Position& p) {
    Position q;
    for (int s = 0; s < 64; s++) {
        int pc = p.getPiece(Square(s));
        if (pc != Piece::EMPTY) q.setPiece(Square(s ^ 7), pc);
    }
    q.setWhiteMove(p.isWhiteMove());
    q.setCastleMask(0);
    if (p.getEpSquare().isValid()) q.setEpSquare(Square(p.getEpSquare().asInt() ^ 7));
    q.setHalfMoveClock(p.getHalfMoveClock());
    q.setFullMoveCounter(p.getFullMoveCounter());
    return q;
}

int freshEval(Oracle& o, const Position& p, int whiteContempt) {
    Evaluate ev(*o.et);
    ev.connectPosition(p);
    ev.setWhiteContempt(whiteContempt);
    return ev.evalPos();
}

void observer(const void* posV, int whiteContempt, int score, int fromCache) {
    if (inOracle) return;
    inOracle = true;
    const Position& pos = *(const Position*)posV;
    if (!tlsOracle) {
        tlsOracle = new Oracle();
        tlsOracle->et = Evaluate::getEvalHashTables();
    }
    Oracle& o = *tlsOracle;
    if ((++o.calls & 63) == 0) // keep the oracle's own cache from answering: evaluate from scratch regularly
        for (auto& e : o.et->evalHash) e = Evaluate::EvalHashTables::EvalHashType::value_type();
    Position fresh = TextIO::readFEN(TextIO::toFEN(pos)); // built from scratch: no incremental state shared with the engine
    int want = freshEval(o, fresh, whiteContempt);
    g_evalChecks++;
    if (fromCache) g_cacheHitChecks++;
    auto fail = [&](const char* cls, const std::string& what, int other) {
        g_mismatch++;
        if (g_firstMismatch.empty()) {
            g_mismatchClass = cls;
            g_firstMismatch = what + ": engine " + std::to_string(score) + " vs " + std::to_string(other) + " for " + TextIO::toFEN(pos) +
                              " contempt " + std::to_string(whiteContempt) + (fromCache ? " (value came from the evaluation cache)" : " (value computed incrementally)");
        }
    };
    if (want != score) fail(fromCache ? "stale-eval-cache" : "incremental-eval-mismatch", "evaluation differs from a from-scratch evaluation", want);
    g_sampleState ^= g_sampleState << 13; g_sampleState ^= g_sampleState >> 7; g_sampleState ^= g_sampleState << 17;
    if (g_symEvery > 0 && (g_sampleState % (uint64_t)g_symEvery) == 0) {
        Position cs = colourSwapped(fresh);
        int v = freshEval(o, cs, -whiteContempt);
        g_colourChecks++;
        if (v != want) fail("colour-asymmetry", "colour-swapped position evaluates differently", v);
        if (fresh.getCastleMask() == 0) {
            Position mr = mirroredLR(fresh), dummy;
            (void)dummy;
            int w = freshEval(o, mr, whiteContempt);
            g_mirrorChecks++;
            if (w != want) fail("mirror-asymmetry", "left-right mirrored position evaluates differently", w);
        }
    }
    inOracle = false;
}

void runC07(const Scenario& sc, vf::Result& res) {
    g_symEvery = (int)sc.knobInt("sym_every", 8);
    g_sampleState = sc.seed * 2654435761ULL + 1;
    sess::evalObserver = observer;
    sess::History h;
    harness_session_run(&sc, &h, &res);
    sess::evalObserver = nullptr;
    uci::Model m;
    uci::buildModel(h, m);
    uci::checkContract(h, m, res);
    uci::checkResults(h, m, res);
    res.counters["eval_checks"] = g_evalChecks;
    res.counters["eval_cache_hit_checks"] = g_cacheHitChecks;
    res.counters["colour_symmetry_checks"] = g_colourChecks;
    res.counters["mirror_symmetry_checks"] = g_mirrorChecks;
    res.counters["gos"] = (long long)m.gos.size();
    if (g_mismatch)
        res.violate("C07", g_mismatchClass, std::to_string(g_mismatch) + " mismatching evaluations, first: " + g_firstMismatch);
}

void genC07(uint64_t seed, int tier, Scenario& sc) {
    Rng r(seed, 1), rk(seed, 2);
    sc.cls = "C07";
    sc.seed = seed;
    sess::genSimKnobs(rk, sc, false);
    long long cost = pickNodeCost(rk);
    sc.set("node_cost_ns", cost);
    static const char* nets[] = {"material", "random", "random", "extreme"};
    sc.setS("net", nets[rk.below(4)]);
    sc.set("sym_every", 8);
    GoOpts go;
    go.maxNodes = tier > 0 ? 20000 : 5000;
    pg::GenPos gp;
    pushSend(sc, "setoption name Threads value " + std::to_string(r.chance(0.5) ? 1 : r.range(2, 8)));
    if (r.chance(0.5)) pushSend(sc, "setoption name Contempt value " + std::to_string(r.range(-300, 300)));
    if (r.chance(0.2)) pushSend(sc, "setoption name Hash value 1");
    int nGo = (int)r.range(1, 5);
    for (int i = 0; i < nGo; i++) {
        if (r.chance(0.3)) pushSend(sc, "setoption name Contempt value " + std::to_string(r.range(-300, 300)));
        if (r.chance(0.15)) pushSend(sc, std::string("setoption name UCI_AnalyseMode value ") + (r.chance(0.5) ? "true" : "false"));
        if (r.chance(0.15)) pushSend(sc, "setoption name AnalyzeContempt value " + std::to_string(r.range(-200, 200)));
        if (r.chance(0.1)) pushSend(sc, "ucinewgame");
        if (i == 0 || r.chance(0.6)) {
            // games with promotions and castling are the interesting histories for the incremental state
            int k = (int)r.below(10);
            if (k < 2) { Rng r2(r.next(), 5); pg::randomGame(r2, (int)r.range(0, 30), false, gp); }
            else if (k < 5) { if (!pg::endgameClass(r, gp)) pg::anyPosition(r, gp); } // material classes with special endgame knowledge
            else pg::anyPosition(r, gp);
        } else if (!gp.legalUci.empty()) {
            // continue the same game by one move: consecutive searches flip the sign of whiteContempt
            std::string mv = gp.legalUci[r.below(gp.legalUci.size())];
            if (gp.positionCmd.find(" moves ") != std::string::npos) gp.positionCmd += " " + mv;
            else gp.positionCmd += " moves " + mv;
            Position p = gp.pos;
            UndoInfo ui;
            p.makeMove(TextIO::uciStringToMove(mv), ui);
            pg::finish(gp, p);
        }
        pushSend(sc, gp.positionCmd);
        bool nr;
        pushSend(sc, genGo(r, gp, cost, go, nr));
        if (nr) { genRelease(r, sc, cost, go.maxNodes); pushSend(sc, "stop"); }
        sc.ops.push_back("wait_bestmove");
    }
    pushSend(sc, "quit");
}

vf::ClassRegistrar regC07({"C07", "C07", "session", genC07, runC07});

} // namespace

// ------------------------------------------------------------------------------------------
// C07H: the same oracle over generated histories (no scheduler involved: plain seeded history generation of the
// operations the search applies to ONE Position/Evaluate pair - moves, take-backs, null moves, position
// assignment at arbitrary stack depth, evaluator reconnects, contempt changes, evaluation-cache flooding).
// It complements the in-search monitor for history patterns that real searches reach only under rare schedules
// (e.g. position assignment in the middle of a make/unmake stack after a helper result was adopted).
#include "moveGen.hpp"
namespace {

void runC07H(const Scenario& sc, vf::Result& res) {
    sess::selectNet(sc.knobStr("net", "random"));
    Rng r(sc.seed, 3);
    auto et = Evaluate::getEvalHashTables();
    auto oet = Evaluate::getEvalHashTables();
    Oracle o;
    o.et = std::move(oet);
    std::unique_ptr<Evaluate> ev(new Evaluate(*et));
    pg::GenPos gp;
    if (!(r.chance(0.3) && pg::endgameClass(r, gp))) pg::anyPosition(r, gp);
    Position pos(gp.pos);
    ev->connectPosition(pos);
    int contempt = 0;
    struct Frame { Move m; UndoInfo ui; bool isNull; Square ep; int hmc; };
    std::vector<Frame> stack;
    std::vector<Position> earlier;
    earlier.push_back(pos);
    long checks = 0;
    const int nOps = (int)sc.knobInt("ops", 200);
    for (int i = 0; i < nOps && res.verdict == "ok"; i++) {
        int k = (int)r.below(100);
        if (k < 38) { // make a move
            std::vector<Move> lm;
            uci::legalMoves(pos, lm);
            if (lm.empty() || stack.size() > 60) continue;
            Frame f;
            f.m = lm[r.below(lm.size())];
            // prefer captures/promotions/castling now and then: more feature changes per move
            for (int t = 0; t < 3; t++) { const Move& c = lm[r.below(lm.size())]; if (pos.getPiece(c.to()) != Piece::EMPTY || c.promoteTo() != Piece::EMPTY) { f.m = c; break; } }
            f.isNull = false;
            stack.push_back(f);
            pos.makeMove(stack.back().m, stack.back().ui);
            res.counters["op_make"]++;
            if (r.chance(0.2)) earlier.push_back(pos);
        } else if (k < 58) { // take back
            if (stack.empty()) continue;
            Frame& f = stack.back();
            if (f.isNull) { pos.setEpSquare(f.ep); pos.setWhiteMove(!pos.isWhiteMove()); pos.setHalfMoveClock(f.hmc); }
            else pos.unMakeMove(f.m, f.ui);
            stack.pop_back();
            res.counters["op_unmake"]++;
        } else if (k < 64) { // null move as the search does it
            if (MoveGen::inCheck(pos) || stack.size() > 60) continue;
            Frame f;
            f.isNull = true;
            f.ep = pos.getEpSquare();
            f.hmc = pos.getHalfMoveClock();
            pos.setWhiteMove(!pos.isWhiteMove());
            pos.setEpSquare(Square(-1));
            pos.setHalfMoveClock(0);
            stack.push_back(f);
            res.counters["op_null_move"]++;
        } else if (k < 72) { // position assignment at the current stack depth (HelperThreadResult / StopSearch paths)
            Position src = earlier[r.below(earlier.size())];
            if (r.chance(0.3)) { pg::GenPos g2; if (!(r.chance(0.4) && pg::endgameClass(r, g2))) pg::anyPosition(r, g2); src = g2.pos; }
            pos = src;
            stack.clear(); // the undo information no longer applies
            res.counters["op_assign"]++;
            res.counters[stack.empty() ? "probe_assign" : "probe_assign"]++;
        } else if (k < 76) { // a new evaluator object on the same tables (every Search constructs one)
            ev.reset(new Evaluate(*et));
            ev->connectPosition(pos);
            ev->setWhiteContempt(contempt);
            res.counters["op_reconnect"]++;
        } else if (k < 80) {
            contempt = r.chance(0.3) ? 0 : (int)r.range(-300, 300);
            ev->setWhiteContempt(contempt);
            res.counters["op_contempt"]++;
        } else { // evaluate and compare
            int got = ev->evalPos();
            Position fresh = TextIO::readFEN(TextIO::toFEN(pos));
            if ((++o.calls & 31) == 0) for (auto& e : o.et->evalHash) e = Evaluate::EvalHashTables::EvalHashType::value_type();
            int want = freshEval(o, fresh, contempt);
            checks++;
            if (got != want) {
                res.violate("C07", "history-eval-mismatch", "after " + std::to_string(i + 1) + " operations (stack depth " + std::to_string(stack.size()) + ") the evaluation is " +
                            std::to_string(got) + " but a from-scratch evaluation gives " + std::to_string(want) + " for " + TextIO::toFEN(pos) + " contempt " + std::to_string(contempt));
                break;
            }
            if (r.chance(0.1)) {
                int v = freshEval(o, colourSwapped(fresh), -contempt);
                if (v != want) res.violate("C07", "colour-asymmetry", "colour-swapped position evaluates to " + std::to_string(v) + " instead of " + std::to_string(want) + " for " + TextIO::toFEN(pos));
            }
        }
    }
    ev.reset();
    res.counters["eval_checks"] = checks;
    res.info["casehash"] = vf::hex64(vf::fnv1a(sc.toText()));
    res.counters["nontrivial"] = checks > 3;
}

void genC07H(uint64_t seed, int tier, Scenario& sc) {
    Rng r(seed, 1);
    sc.cls = "C07H";
    sc.seed = seed;
    static const char* nets[] = {"material", "random", "random", "extreme"};
    sc.setS("net", nets[r.below(4)]);
    sc.set("ops", r.logRange(10, tier > 0 ? 3000 : 400));
}

vf::ClassRegistrar regC07H({"C07H", "C07", "unit", genC07H, runC07H});

} // namespace
