// C07: static evaluation is a pure, symmetric function of the position.
// Monitor inside real (simulated) searches: at every evaluation the engine performs (hook verif_eval, also on
// cache hits) an independent evaluator with its own tables evaluates the same position from scratch.
#include "common.hpp"
#include "session.hpp"
#include "uci_oracle.hpp"
#include "posgen.hpp"
#include "gen_util.hpp"
#include "evaluate.hpp"
#include "textio.hpp"
#include <memory>

namespace sess { bool ttIndexViolation(std::string& detail); }
using vf::Rng;
using vf::Scenario;
using namespace gu;

namespace {

struct Oracle {
    std::unique_ptr<Evaluate::EvalHashTables> et;
    long calls = 0;
};
thread_local Oracle* tlsOracle = nullptr;
thread_local bool inOracle = false;

// shared counters (serialised by the baton)
long g_evalChecks = 0, g_cacheHitChecks = 0, g_colourChecks = 0, g_mirrorChecks = 0, g_mismatch = 0;
std::string g_firstMismatch, g_mismatchClass;
uint64_t g_sampleState = 88172645463325252ULL;
int g_symEvery = 8;

Position colourSwapped(const Position& p) {
    Position q;
    for (int s = 0; s < 64; s++) {
        int pc = p.getPiece(Square(s));
        if (pc == Piece::EMPTY) continue;
        int npc = Piece::isWhite(pc) ? Piece::makeBlack(pc) : Piece::makeWhite(pc);
        q.setPiece(Square(s ^ 56), npc);
    }
    q.setWhiteMove(!p.isWhiteMove());
    int cm = p.getCastleMask(), ncm = 0;
    if (cm & (1 << Position::A1_CASTLE)) ncm |= 1 << Position::A8_CASTLE;
    if (cm & (1 << Position::H1_CASTLE)) ncm |= 1 << Position::H8_CASTLE;
    if (cm & (1 << Position::A8_CASTLE)) ncm |= 1 << Position::A1_CASTLE;
    if (cm & (1 << Position::H8_CASTLE)) ncm |= 1 << Position::H1_CASTLE;
    q.setCastleMask(ncm);
    if (p.getEpSquare().isValid()) q.setEpSquare(Square(p.getEpSquare().asInt() ^ 56));
    q.setHalfMoveClock(p.getHalfMoveClock());
    q.setFullMoveCounter(p.getFullMoveCounter());
    return q;
}

Position mirroredLR(const Position& p) {
    Position q;
    for (int s = 0; s < 64; s++) {
        int pc = p.getPiece(Square(s));
        if (pc != Piece::EMPTY) q.setPiece(Square(s ^ 7), pc);
    }
    q.setWhiteMove(p.isWhiteMove());
    q.setCastleMask(0);
    if (p.getEpSquare().isValid()) q.setEpSquare(Square(p.getEpSquare().asInt() ^ 7));
    q.setHalfMoveClock(p.getHalfMoveClock());
    q.setFullMoveCounter(p.getFullMoveCounter());
    return q;
}

int freshEval(Oracle& o, const Position& p, int whiteContempt) {
    Evaluate ev(*o.et);
    ev.connectPosition(p);
    ev.setWhiteContempt(whiteContempt);
    return ev.evalPos();
}

void observer(const void* posV, int whiteContempt, int score, int fromCache) {
    if (inOracle) return;
    inOracle = true;
    const Position& pos = *(const Position*)posV;
    if (!tlsOracle) {
        tlsOracle = new Oracle();
        tlsOracle->et = Evaluate::getEvalHashTables();
    }
    Oracle& o = *tlsOracle;
    if ((++o.calls & 63) == 0) // keep the oracle's own cache from answering: evaluate from scratch regularly
        for (auto& e : o.et->evalHash) e = Evaluate::EvalHashTables::EvalHashType::value_type();
    Position fresh = TextIO::readFEN(TextIO::toFEN(pos)); // built from scratch: no incremental state shared with the engine
    int want = freshEval(o, fresh, whiteContempt);
    g_evalChecks++;
    if (fromCache) g_cacheHitChecks++;
    auto fail = [&](const char* cls, const std::string& what, int other) {
        g_mismatch++;
        if (g_firstMismatch.empty()) {
            g_mismatchClass = cls;
            g_firstMismatch = what + ": engine " + std::to_string(score) + " vs " + std::to_string(other) + " for " + TextIO::toFEN(pos) +
                              " contempt " + std::to_string(whiteContempt) + (fromCache ? " (value came from the evaluation cache)" : " (value computed incrementally)");
        }
    };
    if (want != score) fail(fromCache ? "stale-eval-cache" : "incremental-eval-mismatch", "evaluation differs from a from-scratch evaluation", want);
    g_sampleState ^= g_sampleState << 13; g_sampleState ^= g_sampleState >> 7; g_sampleState ^= g_sampleState << 17;
    if (g_symEvery > 0 && (g_sampleState % (uint64_t)g_symEvery) == 0) {
        Position cs = colourSwapped(fresh);
        int v = freshEval(o, cs, -whiteContempt);
        g_colourChecks++;
        if (v != want) fail("colour-asymmetry", "colour-swapped position evaluates differently", v);
        if (fresh.getCastleMask() == 0) {
            Position mr = mirroredLR(fresh), dummy;
            (void)dummy;
            int w = freshEval(o, mr, whiteContempt);
            g_mirrorChecks++;
            if (w != want) fail("mirror-asymmetry", "left-right mirrored position evaluates differently", w);
        }
    }
    inOracle = false;
}

void runC07(const Scenario& sc, vf::Result& res) {
    g_symEvery = (int)sc.knobInt("sym_every", 8);
    g_sampleState = sc.seed * 2654435761ULL + 1;
    sess::evalObserver = observer;
    sess::History h;
    sess::runSession(sc, h, res);
    sess::evalObserver = nullptr;
    uci::Model m;
    uci::buildModel(h, m);
    uci::checkContract(h, m, res);
    uci::checkResults(h, m, res);
    res.counters["eval_checks"] = g_evalChecks;
    res.counters["eval_cache_hit_checks"] = g_cacheHitChecks;
    res.counters["colour_symmetry_checks"] = g_colourChecks;
    res.counters["mirror_symmetry_checks"] = g_mirrorChecks;
    res.counters["gos"] = (long long)m.gos.size();
    if (g_mismatch)
        res.violate("C07", g_mismatchClass, std::to_string(g_mismatch) + " mismatching evaluations, first: " + g_firstMismatch);
}

void genC07(uint64_t seed, int tier, Scenario& sc) {
    Rng r(seed, 1), rk(seed, 2);
    sc.cls = "C07";
    sc.seed = seed;
    sess::genSimKnobs(rk, sc, false);
    long long cost = pickNodeCost(rk);
    sc.set("node_cost_ns", cost);
    static const char* nets[] = {"material", "random", "random", "extreme"};
    sc.setS("net", nets[rk.below(4)]);
    sc.set("sym_every", 8);
    GoOpts go;
    go.maxNodes = tier > 0 ? 20000 : 5000;
    pg::GenPos gp;
    pushSend(sc, "setoption name Threads value " + std::to_string(r.chance(0.5) ? 1 : r.range(2, 8)));
    if (r.chance(0.5)) pushSend(sc, "setoption name Contempt value " + std::to_string(r.range(-300, 300)));
    if (r.chance(0.2)) pushSend(sc, "setoption name Hash value 1");
    int nGo = (int)r.range(1, 5);
    for (int i = 0; i < nGo; i++) {
        if (r.chance(0.3)) pushSend(sc, "setoption name Contempt value " + std::to_string(r.range(-300, 300)));
        if (r.chance(0.15)) pushSend(sc, std::string("setoption name UCI_AnalyseMode value ") + (r.chance(0.5) ? "true" : "false"));
        if (r.chance(0.15)) pushSend(sc, "setoption name AnalyzeContempt value " + std::to_string(r.range(-200, 200)));
        if (r.chance(0.1)) pushSend(sc, "ucinewgame");
        if (i == 0 || r.chance(0.6)) {
            // games with promotions and castling are the interesting histories for the incremental state
            int k = (int)r.below(10);
            if (k < 2) { Rng r2(r.next(), 5); pg::randomGame(r2, (int)r.range(0, 30), false, gp); }
            else pg::anyPosition(r, gp);
        } else if (!gp.legalUci.empty()) {
            // continue the same game by one move: consecutive searches flip the sign of whiteContempt
            std::string mv = gp.legalUci[r.below(gp.legalUci.size())];
            if (gp.positionCmd.find(" moves ") != std::string::npos) gp.positionCmd += " " + mv;
            else gp.positionCmd += " moves " + mv;
            Position p = gp.pos;
            UndoInfo ui;
            p.makeMove(TextIO::uciStringToMove(mv), ui);
            pg::finish(gp, p);
        }
        pushSend(sc, gp.positionCmd);
        bool nr;
        pushSend(sc, genGo(r, gp, cost, go, nr));
        if (nr) { genRelease(r, sc, cost, go.maxNodes); pushSend(sc, "stop"); }
        sc.ops.push_back("wait_bestmove");
    }
    pushSend(sc, "quit");
}

vf::ClassRegistrar regC07({"C07", "C07", "session", genC07, runC07});

} // namespace
