// Session harness: real UCIProtocol::main under vsim with simulated stdin/stdout, GUI and hooks.
#include "session.hpp"
#include <pthread.h>
#include "uciprotocol.hpp"
#include "computerPlayer.hpp"
#include "transpositionTable.hpp"
#include <iostream>
#include <fstream>
#include <streambuf>
#include <deque>
#include <cstring>
#include <unistd.h>

// ---- synthetic network buffer (replaces the INCBIN object of the shipped build) ----
extern "C" {
unsigned char gNNDataData[8 * 1024 * 1024];
unsigned int gNNDataSize = 0;
}


namespace sess {

void (*evalObserver)(const void*, int, int, int) = nullptr;
void (*customOp)(const std::string&) = nullptr;

static History* H = nullptr;
static uint64_t g_seq = 0;
static long g_mainTicks = 0, g_allTicks = 0;
static long long g_nodeCostNs = 1000;
static int g_tickYield = 0;
static int g_helperTickYield = 64;
static long long g_workCostNs[3] = {0, 0, 0}; // virtual cost per position of the on-demand tablebase generator's phases
static bool g_workYield = false;
static long g_workTicks = 0;
static long g_tickCnt[512];
static double g_collisionP = 0;
static vf::Rng g_faultRng(1, 7);
static std::vector<long> g_allocFailAt; // ordinals of large allocations that fail
static long g_largeAllocs = 0;
static long g_maxTicks = 2000000;
static bool g_ttYield = false;
static int g_ttYieldEvery = 1;
static long g_ttCnt = 0;

void selectNet(const std::string& name) {
    const char* root = getenv("VERIF_ROOT");
    std::string path = std::string(root ? root : "/verif") + "/build/nets/" + name + ".compr";
    std::ifstream f(path, std::ios::binary);
    if (!f) { fprintf(stderr, "cannot open net %s\n", path.c_str()); _exit(92); }
    f.read((char*)gNNDataData, sizeof gNNDataData);
    gNNDataSize = (unsigned)f.gcount();
    if (gNNDataSize == 0 || gNNDataSize == sizeof gNNDataData) { fprintf(stderr, "bad net size\n"); _exit(92); }
}

// ------------------------------------------------------------------------------------------
// stdout
struct OutBuf : std::streambuf {
    std::string cur;
    unsigned tidMask = 0;
    int tidCount = 0;
    long bestmoves = 0, readyoks = 0, infosSinceGo = 0;
    std::streamsize xsputn(const char* p, std::streamsize n) override { append(p, (size_t)n); return n; }
    int overflow(int c) override {
        if (c != EOF) { char ch = (char)c; append(&ch, 1); }
        return c;
    }
    int sync() override { return 0; }
    void append(const char* p, size_t n) {
        vsim::yield(vsim::S_OUT);
        int me = vsim::self();
        H->outHash = vf::fnv1a(p, n, H->outHash);
        for (size_t i = 0; i < n; i++) {
            char c = p[i];
            unsigned bit = 1u << (me & 31);
            if (!(tidMask & bit)) { tidMask |= bit; tidCount++; }
            if (c == '\n') {
                OutLine l;
                l.seq = ++g_seq;
                l.t = vsim::now();
                l.tid = me;
                l.torn = tidCount > 1;
                l.text = cur;
                l.mainTicks = g_mainTicks;
                l.allTicks = g_allTicks;
                l.steps = (long)vsim::stats().steps;
                l.engClockReads = (long)vsim::stats().clockReads[vsim::R_ENGINE];
                l.workTicks = g_workTicks;
                if (vf::startsWith(cur, "bestmove")) bestmoves++;
                else if (cur == "readyok") readyoks++;
                else if (vf::startsWith(cur, "info depth") && cur.find(" score ") != std::string::npos) infosSinceGo++;
                H->out.push_back(l);
                cur.clear();
                tidMask = 0;
                tidCount = 0;
            } else
                cur.push_back(c);
        }
    }
};

// ------------------------------------------------------------------------------------------
// stdin
struct InBuf : std::streambuf {
    std::deque<int> queue; // indices into H->sent
    bool closed = false;
    std::string cur;
    int underflow() override {
        vsim::yield(vsim::S_IN);
        for (;;) {
            if (!queue.empty()) {
                SentLine& s = H->sent[queue.front()];
                queue.pop_front();
                s.seqRead = ++g_seq;
                s.tRead = vsim::now();
                s.mainTicksAtRead = g_mainTicks;
                cur = s.text + "\n";
                setg(&cur[0], &cur[0], &cur[0] + cur.size());
                return (unsigned char)cur[0];
            }
            if (closed) return EOF;
            vsim::blockOn(&queue, vsim::S_IN);
        }
    }
};

static OutBuf* g_out = nullptr;
static InBuf* g_in = nullptr;

// ------------------------------------------------------------------------------------------
// GUI
struct GoModel { bool ponder, infinite, stopped; };

struct Gui : vsim::Actor {
    std::vector<std::string> ops;
    size_t pc = 0;
    bool armed = false;
    long long untilT = -1;
    long untilStep = -1, untilTicks = -1;
    long isreadys = 0;
    std::vector<GoModel> gos;
    bool closeDone = false;

    static bool goHasLimit(const std::vector<std::string>& tok) {
        bool inf = false, lim = false;
        for (size_t i = 1; i < tok.size(); i++) {
            const std::string& t = tok[i];
            if (t == "infinite") inf = true;
            if ((t == "depth" || t == "nodes" || t == "mate" || t == "movetime" || t == "wtime" || t == "btime") &&
                i + 1 < tok.size() && atoll(tok[i + 1].c_str()) > 0)
                lim = true;
        }
        return lim && !inf;
    }
    void noteSent(const std::string& line) {
        std::vector<std::string> tok = vf::splitWs(line);
        if (tok.empty()) return;
        const std::string& c = tok[0];
        if (c == "go") {
            for (auto& g : gos) g.stopped = true;
            GoModel g;
            g.ponder = false;
            for (auto& t : tok) if (t == "ponder") g.ponder = true;
            g.infinite = !goHasLimit(tok);
            g.stopped = false;
            gos.push_back(g);
            g_out->infosSinceGo = 0;
        } else if (c == "stop" || c == "quit") {
            for (auto& g : gos) g.stopped = true;
        } else if (c == "ponderhit") {
            if (!gos.empty()) gos.back().ponder = false;
        } else if (c == "isready")
            isreadys++;
    }
    long answerable() const {
        long n = 0;
        for (auto& g : gos) if (g.stopped || (!g.ponder && !g.infinite)) n++;
        return n;
    }
    bool lastGoUnreleased() const { return answerable() < (long)gos.size(); }

    void arm(const std::vector<std::string>& tok) {
        if (armed) return;
        armed = true;
        long long n = tok.size() > 1 ? atoll(tok[1].c_str()) : 0;
        if (tok[0] == "wait_ms") untilT = vsim::now() + n * 1000000LL;
        else if (tok[0] == "wait_us") untilT = vsim::now() + n * 1000LL;
        else if (tok[0] == "wait_steps") untilStep = (long)vsim::stats().steps + (long)n;
        else if (tok[0] == "wait_ticks") untilTicks = g_allTicks + (long)n;
    }
    bool ready() override {
        if (pc >= ops.size()) return !closeDone;
        std::vector<std::string> tok = vf::splitWs(ops[pc]);
        if (tok.empty()) return true;
        arm(tok);
        const std::string& k = tok[0];
        if (k == "wait_ms" || k == "wait_us") return vsim::now() >= untilT;
        // waits on progress measures fall through when the measured activity has stopped
        if (k == "wait_steps") return (long)vsim::stats().steps >= untilStep || vsim::allParked();
        bool engineIdle = vsim::isBlockedIdle(0) && vsim::isBlockedIdle(1) && g_in->queue.empty();
        if (k == "wait_ticks") return g_allTicks >= untilTicks || g_out->bestmoves >= (long)gos.size() || engineIdle;
        if (k == "wait_bestmove") return g_out->bestmoves >= answerable();
        if (k == "wait_readyok") return g_out->readyoks >= isreadys;
        if (k == "wait_info") {
            long n = tok.size() > 1 ? atol(tok[1].c_str()) : 1;
            return g_out->infosSinceGo >= n || g_out->bestmoves >= (long)gos.size() || engineIdle;
        }
        if (k == "wait_idle") return lastGoUnreleased() || (g_out->bestmoves >= answerable() && vsim::allParked());
        return true; // send, close, unknown
    }
    long long deadline() override {
        if (pc >= ops.size() || !armed) return -1;
        if (vf::startsWith(ops[pc], "wait_ms") || vf::startsWith(ops[pc], "wait_us")) return untilT;
        return -1;
    }
    void doClose() {
        for (auto& g : gos) g.stopped = true;
        g_in->closed = true;
        H->eofSent = true;
        H->seqEof = ++g_seq;
        closeDone = true;
        vsim::wake(&g_in->queue);
    }
    void step() override {
        if (pc >= ops.size()) { doClose(); return; }
        const std::string op = ops[pc];
        int opIndex = (int)pc;
        pc++;
        armed = false;
        if (vf::startsWith(op, "send ") || op == "send") {
            if (g_in->closed) return;
            SentLine s;
            s.seqSent = ++g_seq;
            s.seqRead = 0;
            s.tSent = vsim::now();
            s.tRead = 0;
            s.text = op.size() > 5 ? op.substr(5) : "";
            s.opIndex = opIndex;
            s.mainTicksAtRead = 0;
            s.stepsAtSent = (long)vsim::stats().steps;
            noteSent(s.text);
            H->sent.push_back(s);
            g_in->queue.push_back((int)H->sent.size() - 1);
            vsim::wake(&g_in->queue);
        } else if (vf::startsWith(op, "freeze ")) {
            // stall fault at this point of the script: "freeze engine|proto <steps>"
            std::vector<std::string> t = vf::splitWs(op);
            if (t.size() >= 3) vsim::freezeRole(t[1] == "proto" ? vsim::R_PROTO : vsim::R_ENGINE, atol(t[2].c_str()));
        } else if (vf::startsWith(op, "tt_yield ")) {
            // from here on every n-th transposition table slot access point is a scheduling point (0 = none)
            long n = atol(op.c_str() + 9);
            g_ttYield = n > 0;
            g_ttYieldEvery = (int)std::max(1L, n);
        } else if (vf::startsWith(op, "x ")) {
            if (customOp) customOp(op.substr(2));
        } else if (op == "close") {
            if (!closeDone) doClose();
        } else if (op == "wait_idle") {
            if (!lastGoUnreleased()) H->idleChecksPassed++;
        }
    }
};

// ------------------------------------------------------------------------------------------
void configFromScenario(const vf::Scenario& sc, vsim::Config& cfg) {
    cfg.schedSeed = (uint64_t)sc.knobInt("sched_seed", (long long)sc.seed);
    cfg.strategy = (int)sc.knobInt("strategy", 0);
    cfg.stickyP = sc.knobDbl("sticky_p", 0.9);
    cfg.pctDepth = (int)sc.knobInt("pct_depth", 2);
    cfg.pctHorizon = (long)sc.knobInt("pct_horizon", 20000);
    cfg.spuriousP = sc.knobDbl("spurious_p", 0);
    cfg.lateTimerP = sc.knobDbl("late_p", 0);
    cfg.lateTimerMaxNs = sc.knobInt("late_max_ns", 0);
    cfg.clockReadCostNs = sc.knobInt("clock_cost_ns", 1000);
    cfg.maxSteps = (long)sc.knobInt("max_steps", 6000000);
    cfg.starveLimit = (long)sc.knobInt("starve_limit", 40);
    for (const std::string& f : sc.faults) {
        std::vector<std::string> t = vf::splitWs(f);
        if (t.size() >= 4 && t[0] == "freeze")
            cfg.freezes.push_back({atol(t[1].c_str()), atoi(t[2].c_str()), atol(t[3].c_str())});
        else if (t.size() >= 3 && t[0] == "jump")
            cfg.jumps.push_back({atol(t[1].c_str()), atoll(t[2].c_str())});
    }
    std::sort(cfg.freezes.begin(), cfg.freezes.end(), [](const vsim::Freeze& a, const vsim::Freeze& b) { return a.atStep < b.atStep; });
    std::sort(cfg.jumps.begin(), cfg.jumps.end(), [](const vsim::ClockJump& a, const vsim::ClockJump& b) { return a.atStep < b.atStep; });
}

void genSimKnobs(vf::Rng& r, vf::Scenario& sc, bool faults) {
    sc.set("sched_seed", (long long)(r.next() >> 1));
    int strat = (int)r.below(10);
    if (strat < 3) sc.set("strategy", vsim::ST_UNIFORM);
    else if (strat < 6) {
        sc.set("strategy", vsim::ST_STICKY);
        static const double ps[] = {0.5, 0.9, 0.99};
        sc.setD("sticky_p", ps[r.below(3)]);
    } else if (strat < 9) {
        sc.set("strategy", vsim::ST_PCT);
        sc.set("pct_depth", r.range(1, 5));
        sc.set("pct_horizon", r.logRange(200, 60000));
    } else
        sc.set("strategy", vsim::ST_RTB);
    { static const int sl[] = {10, 16, 25, 25}; sc.set("starve_limit", sl[r.below(4)]); }
    sc.set("clock_cost_ns", r.chance(0.1) ? r.logRange(1000, 2000000) : r.logRange(100, 20000));
    static const int ty[] = {0, 0, 1, 10, 100};
    sc.set("tick_yield", ty[r.below(5)]);
    static const int hty[] = {1, 4, 16, 64, 64};
    bool prio = sc.knobInt("strategy", 0) == vsim::ST_PCT || sc.knobInt("strategy", 0) == vsim::ST_RTB;
    sc.set("helper_tick_yield", hty[r.below(prio ? 3 : 5)]);
    // on-demand tablebase generation: about 60 ns per position in the classification phases and 6 ns per position and
    // pass in the iteration phase on the reference machine; varied by a factor of 4 either way
    sc.set("work_cost01_ns", r.logRange(15, 240));
    sc.set("work_cost2_ns", r.logRange(2, 24));
    sc.set("work_yield", 1);
    // pre-emption inside transposition table slot accesses (between the key word and the data word): a thread can be
    // parked while it holds a pointer into the table, e.g. across a resize by another thread
    if (r.chance(0.35)) { static const int ev[] = {7, 20, 50, 200}; sc.set("tt_yield", ev[r.below(4)]); }
    if (faults) {
        if (r.chance(0.5)) sc.setD("spurious_p", r.chance(0.5) ? 0.002 : 0.02);
        if (r.chance(0.3)) { sc.setD("late_p", 0.2); sc.set("late_max_ns", r.logRange(1000, 50000000)); }
        int nf = (int)r.below(3);
        for (int i = 0; i < nf; i++)
            sc.faults.push_back("freeze " + std::to_string(r.logRange(10, 40000)) + " " + std::to_string(r.below(6)) + " " +
                                std::to_string(r.logRange(10, 5000)));
    }
}

void addStatsToResult(vf::Result& res) {
    const vsim::Stats& s = vsim::stats();
    res.counters["steps"] = (long long)s.steps;
    res.counters["switches"] = (long long)s.switches;
    res.counters["decisions"] = (long long)s.decisions;
    res.counters["timer_jumps"] = (long long)s.timerJumps;
    res.counters["fault_spurious_wakeup"] = (long long)s.spurious;
    res.counters["fault_late_timer"] = (long long)s.lateTimers;
    res.counters["fault_freeze"] = (long long)s.freezesFired;
    res.counters["fault_clock_jump"] = (long long)s.jumpsFired;
    res.counters["starve_rescues"] = (long long)s.starveRescues;
    res.counters["threads_created"] = (long long)s.threadsCreated;
    res.counters["max_runnable"] = (long long)s.maxRunnable;
    res.counters["switch_pairs"] = vsim::countPairs();
    res.counters["vtime_us"] = (vsim::now() - 1000LL * 1000000000LL) / 1000;
    res.info["schedhash"] = vf::hex64(s.schedHash);
    std::string pairs;
    for (int a = 0; a < vsim::S_NSITES * vsim::R_NROLES; a++)
        for (int b = 0; b < vsim::S_NSITES * vsim::R_NROLES; b++)
            if (s.pairs[a][b >> 6] & (1ULL << (b & 63))) {
                char buf[16];
                snprintf(buf, sizeof buf, "%x.%x,", a, b);
                pairs += buf;
            }
    res.info["pairs"] = pairs;
}

static vf::Result* g_res = nullptr;
static Gui* g_gui = nullptr;
static bool g_dump = false;
void dumpTranscript() {
    if (!H) return;
    size_t i = 0, j = 0;
    std::string all;
    while (i < H->sent.size() || j < H->out.size()) {
        bool takeSent = j >= H->out.size() || (i < H->sent.size() && H->sent[i].seqSent < H->out[j].seq);
        if (takeSent) { all += "> [" + std::to_string(H->sent[i].seqSent) + "] " + H->sent[i].text + "\n"; i++; }
        else { all += "< [" + std::to_string(H->out[j].seq) + " t" + std::to_string(H->out[j].tid) + " " + std::to_string(H->out[j].t / 1000) + "us] " + H->out[j].text + "\n"; j++; }
    }
    fprintf(stderr, "%s", all.c_str());
}
static void fatalHandler(const char* kind, const std::string& detail0) {
    vf::Result& res = *g_res;
    addStatsToResult(res);
    std::string k = kind;
    std::string detail = detail0;
    bool waitingBestmove = false, waitingReadyok = false;
    if (H) {
        res.counters["out_lines"] = (long long)H->out.size();
        res.counters["sent_lines"] = (long long)H->sent.size();
    }
    if (g_gui) {
        std::string op = g_gui->pc < g_gui->ops.size() ? g_gui->ops[g_gui->pc] : "<end>";
        waitingBestmove = op == "wait_bestmove" || op == "wait_idle";
        waitingReadyok = op == "wait_readyok";
        detail += " gui waits at op #" + std::to_string(g_gui->pc) + " '" + op + "' bestmoves=" + std::to_string(g_out->bestmoves) +
                  " gos=" + std::to_string(g_gui->gos.size()) + " answerable=" + std::to_string(g_gui->answerable()) +
                  " readyok=" + std::to_string(g_out->readyoks) + "/" + std::to_string(g_gui->isreadys);
        if (!H->sent.empty()) detail += " last sent: '" + H->sent.back().text + "'";
    }
    if (k == "deadlock" && waitingBestmove)
        res.violate("C05", "no-bestmove", "every thread is parked but a released search never delivered its bestmove; " + detail);
    else if (k == "deadlock" && waitingReadyok)
        res.violate("C05", "no-readyok", "every thread is parked but isready was never answered; " + detail);
    else if (k == "deadlock")
        res.violate("C10", "deadlock", "simulator deadlock: no runnable thread, no timer; " + detail);
    else
        res.violate("C10", "step-budget", "step budget exhausted (hang or livelock); " + detail);
    if (g_dump) dumpTranscript();
    vf::emitResultAndExit(res);
}

static void sleepObs(int tid, long long b, long long e) {
    if (H && vsim::role(tid) == vsim::R_ENGINE) H->engineSleeps.push_back({b, e, g_mainTicks});
}

void beginUnit(const vf::Scenario& sc, History& h) {
    H = &h;
    g_seq = 0;
    g_mainTicks = g_allTicks = 0;
    g_collisionP = 0;
    g_ttYield = sc.knobInt("tt_yield", 0) != 0;
    g_ttYieldEvery = (int)std::max(1LL, sc.knobInt("tt_yield", 1));
    g_faultRng = vf::Rng(sc.seed, 7);
    g_allocFailAt.clear();
}
void setTTYield(bool on) { g_ttYield = on; }
long bestmovesSoFar() { return g_out ? g_out->bestmoves : 0; }

struct SessionCtx {
    OutBuf out;
    InBuf in;
    Gui gui;
    std::streambuf* oldOut = nullptr;
    std::streambuf* oldIn = nullptr;
};

static void sessionBegin(const vf::Scenario& sc, History& h, vf::Result& res, SessionCtx& cx) {
    H = &h;
    g_res = &res;
    g_seq = 0;
    g_mainTicks = g_allTicks = 0;
    memset(g_tickCnt, 0, sizeof g_tickCnt);
    g_nodeCostNs = sc.knobInt("node_cost_ns", 1000);
    g_tickYield = (int)sc.knobInt("tick_yield", 0);
    g_helperTickYield = (int)sc.knobInt("helper_tick_yield", 64);
    g_workCostNs[0] = g_workCostNs[1] = sc.knobInt("work_cost01_ns", 0);
    g_workCostNs[2] = sc.knobInt("work_cost2_ns", 0);
    g_workYield = sc.knobInt("work_yield", 0) != 0;
    g_workTicks = 0;
    g_collisionP = sc.knobDbl("collision_p", 0);
    g_ttYield = sc.knobInt("tt_yield", 0) != 0;
    g_ttYieldEvery = (int)std::max(1LL, sc.knobInt("tt_yield", 1));
    g_faultRng = vf::Rng(sc.seed, 7);
    g_allocFailAt.clear();
    g_largeAllocs = 0;
    for (const std::string& f : sc.faults) {
        std::vector<std::string> t = vf::splitWs(f);
        if (t.size() >= 2 && t[0] == "allocfail") g_allocFailAt.push_back(atol(t[1].c_str()));
    }
    g_dump = sc.knobInt("dump", 0) != 0;
    g_maxTicks = (long)sc.knobInt("max_ticks", 2000000);
    selectNet(sc.knobStr("net", "material"));

    vsim::Config cfg;
    configFromScenario(sc, cfg);
    OutBuf& out = cx.out;
    InBuf& in = cx.in;
    g_out = &out;
    g_in = &in;
    Gui& gui = cx.gui;
    g_gui = &gui;
    gui.ops = sc.ops;
    cx.oldOut = std::cout.rdbuf(&out);
    cx.oldIn = std::cin.rdbuf(&in);
    std::cin.clear();
    vsim::onFatal = fatalHandler;
    vsim::sleepObserver = sleepObs;
    vsim::init(cfg);
    vsim::addActor(&gui);
}

static void sessionEnd(const vf::Scenario& sc, History& h, vf::Result& res, SessionCtx& cx) {
    h.mainReturned = true;
    if (g_dump) dumpTranscript();
    h.threadsAllDone = vsim::allOthersDone();
    h.partialLine = cx.out.cur;
    std::cout.rdbuf(cx.oldOut);
    std::cin.rdbuf(cx.oldIn);
    addStatsToResult(res);
    res.counters["out_lines"] = (long long)h.out.size();
    res.counters["sent_lines"] = (long long)h.sent.size();
    res.counters["engine_ticks"] = g_allTicks;
    res.counters["helper_ticks"] = h.helperTicks;
    res.counters["work_ticks"] = (long long)h.workTickTimes.size();
    res.counters["fault_tt_collision"] = h.collisionsInjected;
    res.counters["fault_alloc_failure"] = h.allocFailures;
    res.counters["tt_points"] = h.ttPoints;
    res.counters["idle_checks"] = h.idleChecksPassed;
    res.info["outhash"] = vf::hex64(h.outHash);
}

} // namespace sess

// The engine main thread (UCIProtocol::main) runs on a thread of its own whose entry function lives outside the harness
// namespaces and has no harness type in its signature: ThreadSanitizer applies a "race:" suppression when ANY frame of
// either stack matches (substring of the demangled name, parameter types included), so a harness frame at the bottom of
// the engine thread's stack would silence every race that involves the engine thread.
namespace sess {
struct MainArgs { const vf::Scenario* sc; History* h; vf::Result* res; SessionCtx* cx; };
}
extern "C" void* texel_main_thread(void* p) {
    sess::MainArgs* a = (sess::MainArgs*)p;
    sess::sessionBegin(*a->sc, *a->h, *a->res, *a->cx); // vsim::init binds this thread as simulated thread 0
    UCIProtocol::main(false);
    sess::sessionEnd(*a->sc, *a->h, *a->res, *a->cx);
    return nullptr;
}

extern "C" void harness_session_run(const void* scP, void* hP, void* resP) {
    sess::MainArgs a;
    a.sc = (const vf::Scenario*)scP;
    a.h = (sess::History*)hP;
    a.res = (vf::Result*)resP;
    a.cx = new sess::SessionCtx(); // intentionally not destroyed: leaked engine threads of a violated run may still use the stream buffers
    pthread_attr_t at;
    pthread_attr_init(&at);
    pthread_attr_setstacksize(&at, 64u << 20);
    pthread_t pt;
    // the simulator is not active in this thread: creation and join below are the real ones
    if (pthread_create(&pt, &at, texel_main_thread, &a) != 0) { fprintf(stderr, "harness: cannot create the main thread\n"); _exit(92); }
    pthread_join(pt, nullptr);
}

// ------------------------------------------------------------------------------------------
// Hook definitions (strong; override the weak declarations in verifHooks.hpp)
using namespace sess;

extern "C" {

void verif_node_tick(int threadNo, int site) {
    if (!vsim::active() || !H) return;
    int me = vsim::self();
    vsim_progress++;
    if (g_allTicks > g_maxTicks || H->helperTicks > 15 * g_maxTicks) // helpers of a starved engine thread may legitimately do far more work
        vsim::fatalExternal("budget", "node budget exhausted: engine ticks " + std::to_string(g_allTicks) + " helper ticks " + std::to_string(H->helperTicks));
    if (vsim::role(me) == vsim::R_ENGINE) {
        vsim::advance(g_nodeCostNs);
        g_allTicks++;
        static const bool traceTicks = getenv("VERIF_TRACE_TICKS") != nullptr;
        if (traceTicks && g_allTicks % 100 == 0) fprintf(stderr, "tick %ld site %d t %lld us\n", g_allTicks, site, vsim::now() / 1000);
        if (site != 2) {
            g_mainTicks++;
            H->mainTickTimes.push_back(vsim::now());
        }
        long long d = vsim::nextDeadline();
        if (d >= 0 && d <= vsim::now()) { vsim::yield(vsim::S_TICK); return; }
        if (g_tickYield > 0 && (++g_tickCnt[0] % g_tickYield) == 0)
            vsim::yield(vsim::S_TICK);
    } else {
        // helpers never advance the clock; their slices are kept short so that a low-priority engine thread is not
        // starved for thousands of nodes per sim point
        H->helperTicks++;
        if (g_helperTickYield > 0 && (++g_tickCnt[me & 511] % g_helperTickYield) == 0)
            vsim::yield(vsim::S_TICK);
    }
}

void verif_work_tick(int phase, unsigned long long units) {
    vsim_progress++;
    if (!vsim::active() || !H) return;
    if (vsim::role(vsim::self()) != vsim::R_ENGINE) return;
    long long c = g_workCostNs[phase < 0 || phase > 2 ? 2 : phase] * (long long)units;
    if (c > 0) vsim::advance(c);
    g_workTicks++;
    { static const bool traceWork = getenv("VERIF_TRACE_TICKS") != nullptr; if (traceWork) fprintf(stderr, "work tick %ld phase %d units %llu t %lld us\n", g_workTicks, phase, units, vsim::now() / 1000); }
    H->workTickTimes.push_back(vsim::now());
    if (c > H->maxWorkTickNs) H->maxWorkTickNs = c;
    if (g_workYield) vsim::yield(vsim::S_TICK);
}

void verif_time_limit(long long minT, long long maxT, int early, long long start) {
    if (!vsim::active() || !H) return;
    LimitEv e;
    e.seq = ++g_seq;
    e.t = vsim::now();
    e.minT = minT;
    e.maxT = maxT;
    e.early = early;
    e.start = start;
    e.tid = vsim::self();
    e.mainTicks = g_mainTicks;
    e.allTicks = g_allTicks;
    e.engClockReads = (long)vsim::stats().clockReads[vsim::R_ENGINE];
    e.workTicks = g_workTicks;
    H->limits.push_back(e);
}

void verif_tt_point(int kind, const void* slot) {
    if (!vsim::active() || !H) return;
    H->ttPoints++;
    if (g_ttYield && (++g_ttCnt % g_ttYieldEvery) == 0)
        vsim::yield(vsim::S_TT);
}

} // extern "C"
void (*verif_tt_index_observer)(unsigned long long, unsigned long long, unsigned long long) = nullptr;
extern "C" {
static volatile bool g_ttIndexBad = false;
static unsigned long long g_badIdx[3];
void verif_tt_index(unsigned long long idx, unsigned long long usedSize, unsigned long long tableSize) {
    if (verif_tt_index_observer) verif_tt_index_observer(idx, usedSize, tableSize);
    if ((idx & 3) || idx + 3 >= usedSize || usedSize > tableSize) {
        if (!g_ttIndexBad) { g_badIdx[0] = idx; g_badIdx[1] = usedSize; g_badIdx[2] = tableSize; }
        g_ttIndexBad = true;
    }
}

int verif_tt_probe(void* ttv, unsigned long long key, unsigned long long* k, unsigned long long* d) {
    if (!vsim::active() || !H || g_collisionP <= 0) return 0;
    if (!g_faultRng.chance(g_collisionP)) return 0;
    TranspositionTable* tt = (TranspositionTable*)ttv;
    unsigned long long nEnt = tt->byteSize() / 16;
    if (nEnt < 1024) return 0;
    for (int tries = 0; tries < 8; tries++) {
        unsigned long long e = g_faultRng.below(nEnt / 2);
        unsigned long long w0 = 0, w1 = 0;
        for (int b = 0; b < 8; b++) {
            w0 |= (unsigned long long)tt->getByte(e * 16 + b) << (8 * b);
            w1 |= (unsigned long long)tt->getByte(e * 16 + 8 + b) << (8 * b);
        }
        if (((w1 >> 46) & 3) != 0) { // non-empty entry
            *k = key;
            *d = w1;
            H->collisionsInjected++;
            return 1;
        }
    }
    return 0;
}

void verif_eval(const void* pos, int whiteContempt, int score, int fromCache) {
    if (sess::evalObserver) sess::evalObserver(pos, whiteContempt, score, fromCache);
}

// Allocation-failure injection for large requests (the transposition table).
void* __real_malloc(size_t);
void* __wrap_malloc(size_t n) {
    // only the transposition table's AlignedAllocator requests (entries*16 + 72 bytes) are failed
    if (n >= 8192 + 72 && ((n - 72) % 8192) == 0 && vsim::active() && H) {
        long ord = ++g_largeAllocs;
        for (long f : g_allocFailAt)
            if (f == ord) { H->allocFailures++; return nullptr; }
    }
    return __real_malloc(n);
}

} // extern "C"

namespace sess {
bool ttIndexViolation(std::string& detail) {
    if (!g_ttIndexBad) return false;
    detail = "idx=" + std::to_string(g_badIdx[0]) + " usedSize=" + std::to_string(g_badIdx[1]) +
             " tableSize=" + std::to_string(g_badIdx[2]);
    return true;
}
}
