#include "dtm_oracle.hpp"
#include <algorithm>
#include <cstdio>
#include <cstdlib>
#include <cstring>
#include <map>
#include <memory>
#include <fcntl.h>
#include <sys/mman.h>
#include <sys/stat.h>
#include <unistd.h>

namespace dtm {

static std::string g_cacheDir = "/verif/cache";
void setCacheDir(const std::string& d) { g_cacheDir = d; }

static int typeRank(char t) {
    switch (t) {
    case 'K': return 0;
    case 'Q': return 1;
    case 'R': return 2;
    case 'B': return 3;
    case 'N': return 4;
    }
    return 9;
}

static const int DIRS[8][2] = {{1, 0}, {-1, 0}, {0, 1}, {0, -1}, {1, 1}, {1, -1}, {-1, 1}, {-1, -1}};
static const int NDIRS[8][2] = {{1, 2}, {2, 1}, {-1, 2}, {-2, 1}, {1, -2}, {2, -1}, {-1, -2}, {-2, -1}};

std::string canonicalKey(const std::vector<Man>& menIn, bool& flip) {
    std::string w, b;
    for (const Man& m : menIn) {
        if (m.type == 'K') continue;
        (m.white ? w : b).push_back(m.type);
    }
    auto byRank = [](char a, char c) { return typeRank(a) < typeRank(c); };
    std::sort(w.begin(), w.end(), byRank);
    std::sort(b.begin(), b.end(), byRank);
    auto rankStr = [](const std::string& s) { std::string r; for (char c : s) r.push_back((char)('0' + typeRank(c))); return r; };
    flip = false;
    if (b.size() > w.size() || (b.size() == w.size() && rankStr(b) < rankStr(w))) { std::swap(w, b); flip = true; }
    return "K" + w + "vK" + b;
}

namespace {

struct TableImpl : Table {
    std::vector<int8_t> own;   // built in memory
    void* map = nullptr;       // or mapped from the cache
    size_t mapLen = 0;
};

std::map<std::string, std::unique_ptr<TableImpl>> g_tables;

struct Pos {
    int n;
    int sq[4];
    int stm; // 0 white, 1 black
};

struct Ctx {
    int n;
    Man men[4];
    size_t N;
};

inline bool adjacent(int a, int b) {
    int dx = (a & 7) - (b & 7), dy = (a >> 3) - (b >> 3);
    return dx >= -1 && dx <= 1 && dy >= -1 && dy <= 1;
}

// Does the man of given type on square `from` attack square `to`, with occupancy board[] (man index or -1)?
bool attacks(char type, int from, int to, const int8_t* board) {
    int fx = from & 7, fy = from >> 3, tx = to & 7, ty = to >> 3;
    int dx = tx - fx, dy = ty - fy;
    if (dx == 0 && dy == 0) return false;
    switch (type) {
    case 'K': return dx >= -1 && dx <= 1 && dy >= -1 && dy <= 1;
    case 'N': return (dx * dx + dy * dy) == 5;
    case 'R': if (dx != 0 && dy != 0) return false; break;
    case 'B': if (dx != dy && dx != -dy) return false; break;
    case 'Q': if (dx != 0 && dy != 0 && dx != dy && dx != -dy) return false; break;
    default: return false;
    }
    int sx = (dx > 0) - (dx < 0), sy = (dy > 0) - (dy < 0);
    int x = fx + sx, y = fy + sy;
    while (x != tx || y != ty) {
        if (board[y * 8 + x] >= 0) return false;
        x += sx;
        y += sy;
    }
    return true;
}

struct Work {
    const Ctx& c;
    int8_t board[64];
    explicit Work(const Ctx& c0) : c(c0) { memset(board, -1, sizeof board); }

    bool setup(const Pos& p) { // returns false if two men share a square
        for (int i = 0; i < c.n; i++) {
            if (board[p.sq[i]] >= 0) { for (int j = 0; j < i; j++) board[p.sq[j]] = -1; return false; }
            board[p.sq[i]] = (int8_t)i;
        }
        return true;
    }
    void clear(const Pos& p) { for (int i = 0; i < c.n; i++) board[p.sq[i]] = -1; }

    // Is the king of side `white` attacked? `skip` = index of a man considered removed (captured), or -1.
    bool kingAttacked(const Pos& p, bool white, int skip) const {
        int ksq = p.sq[white ? 0 : 1];
        for (int i = 0; i < c.n; i++) {
            if (i == skip || c.men[i].white == white) continue;
            if (attacks(c.men[i].type, p.sq[i], ksq, board)) return true;
        }
        return false;
    }
};

inline size_t indexOf(const Ctx& c, const Pos& p) {
    size_t idx = 0, mul = 1;
    for (int i = 0; i < c.n; i++) { idx += (size_t)p.sq[i] * mul; mul *= 64; }
    return (size_t)p.stm * c.N + idx;
}

inline void decode(const Ctx& c, size_t idx, Pos& p) {
    p.n = c.n;
    p.stm = idx >= c.N ? 1 : 0;
    size_t r = idx % c.N;
    for (int i = 0; i < c.n; i++) { p.sq[i] = (int)(r & 63); r >>= 6; }
}

struct MoveRec { int man, to, captured; };

// Legal moves of the side to move. The position must be set up on w.board.
int genMoves(Work& w, Pos& p, MoveRec* out) {
    const Ctx& c = w.c;
    int cnt = 0;
    bool white = p.stm == 0;
    for (int i = 0; i < c.n; i++) {
        if (c.men[i].white != white) continue;
        char t = c.men[i].type;
        int from = p.sq[i];
        int fx = from & 7, fy = from >> 3;
        auto tryMove = [&](int to) -> bool { // returns true if the ray may continue past `to`
            int occ = w.board[to];
            if (occ >= 0 && c.men[occ].white == white) return false;
            if (occ >= 0 && c.men[occ].type == 'K') return false; // cannot happen in legal positions
            // make
            w.board[from] = -1;
            w.board[to] = (int8_t)i;
            p.sq[i] = to;
            bool ok = !(t == 'K' && adjacent(to, p.sq[white ? 1 : 0])) && !w.kingAttacked(p, white, occ);
            // unmake
            p.sq[i] = from;
            w.board[to] = (int8_t)occ;
            w.board[from] = (int8_t)i;
            if (ok) { out[cnt].man = i; out[cnt].to = to; out[cnt].captured = occ; cnt++; }
            return occ < 0;
        };
        if (t == 'K' || t == 'N') {
            const int(*d)[2] = t == 'K' ? DIRS : NDIRS;
            for (int k = 0; k < 8; k++) {
                int x = fx + d[k][0], y = fy + d[k][1];
                if (x < 0 || x > 7 || y < 0 || y > 7) continue;
                tryMove(y * 8 + x);
            }
        } else {
            int k0 = t == 'B' ? 4 : 0, k1 = t == 'R' ? 4 : 8;
            for (int k = k0; k < k1; k++) {
                int x = fx + DIRS[k][0], y = fy + DIRS[k][1];
                while (x >= 0 && x <= 7 && y >= 0 && y <= 7) {
                    if (!tryMove(y * 8 + x)) break;
                    x += DIRS[k][0];
                    y += DIRS[k][1];
                }
            }
        }
    }
    return cnt;
}

bool legalPosition(Work& w, const Pos& p) { // board must be set up
    if (adjacent(p.sq[0], p.sq[1])) return false;
    return !w.kingAttacked(p, p.stm != 0, -1); // side NOT to move must not be in check
}

// value encoding helpers
inline int8_t encWin(int plies) { return (int8_t)plies; }
inline int8_t encLoss(int plies) { return (int8_t)(-(plies + 1)); }

Value decodeVal(int8_t v) {
    Value r;
    if (v == ILLEGAL) { r.kind = Value::ILLEGAL_POS; r.plies = 0; }
    else if (v == 0) { r.kind = Value::DRAW; r.plies = 0; }
    else if (v > 0) { r.kind = Value::WIN; r.plies = v; }
    else { r.kind = Value::LOSS; r.plies = -v - 1; }
    return r;
}

Value probeMen(const std::vector<Man>& men, const std::vector<int>& sq, bool whiteToMove);

void build(TableImpl& T) {
    Ctx c;
    c.n = T.n;
    for (int i = 0; i < T.n; i++) c.men[i] = T.men[i];
    c.N = T.N;
    const size_t total = 2 * c.N;
    T.own.assign(total, 0);
    std::vector<uint8_t> cnt(total, 0);
    std::vector<int8_t> maxLoss(total, 0);
    const int MAXD = 126;
    std::vector<std::vector<uint32_t>> bucket(MAXD + 2); // entry = idx*2 + (1 if LOSS)
    Work w(c);
    MoveRec mv[128];
    // make sure the sub-tables exist before the main loop (recursive build)
    for (int i = 2; i < c.n; i++) {
        std::vector<Man> sub;
        for (int j = 0; j < c.n; j++) if (j != i) sub.push_back(c.men[j]);
        bool flip;
        std::string k = canonicalKey(sub, flip);
        if (sub.size() > 2) getTable(k);
    }
    // ---- pass 1: legality, move counts, captures into sub-tables
    for (size_t idx = 0; idx < total; idx++) {
        Pos p;
        decode(c, idx, p);
        if (!w.setup(p)) { T.own[idx] = ILLEGAL; continue; }
        if (!legalPosition(w, p)) { T.own[idx] = ILLEGAL; w.clear(p); continue; }
        int n = genMoves(w, p, mv);
        int remaining = n;
        int ml = 0;
        if (n == 0) {
            if (w.kingAttacked(p, p.stm == 0, -1)) { bucket[0].push_back((uint32_t)(idx * 2 + 1)); }
            // else stalemate: stays 0 (draw), never enters a bucket
        } else {
            for (int k = 0; k < n; k++) {
                if (mv[k].captured < 0) continue;
                std::vector<Man> men;
                std::vector<int> sq;
                for (int j = 0; j < c.n; j++) {
                    if (j == mv[k].captured) continue;
                    men.push_back(c.men[j]);
                    sq.push_back(j == mv[k].man ? mv[k].to : p.sq[j]);
                }
                Value sv = probeMen(men, sq, p.stm != 0); // opponent to move: white to move iff stm was black
                if (sv.kind == Value::LOSS) {
                    int d = sv.plies + 1;
                    if (d <= MAXD) bucket[d].push_back((uint32_t)(idx * 2));
                } else if (sv.kind == Value::WIN) {
                    remaining--;
                    ml = std::max(ml, sv.plies + 1);
                } else if (sv.kind != Value::DRAW) {
                    fprintf(stderr, "dtm: capture leads to illegal sub-position in %s\n", T.key.c_str());
                    abort();
                }
            }
            if (remaining == 0 && ml <= MAXD) bucket[ml].push_back((uint32_t)(idx * 2 + 1));
        }
        cnt[idx] = (uint8_t)remaining;
        maxLoss[idx] = (int8_t)ml;
        w.clear(p);
    }
    // ---- pass 2: retrograde propagation in order of increasing depth
    for (int d = 0; d <= MAXD; d++) {
        for (size_t bi = 0; bi < bucket[d].size(); bi++) {
            uint32_t e = bucket[d][bi];
            size_t idx = e >> 1;
            bool isLoss = e & 1;
            if (T.own[idx] != 0) continue;
            T.own[idx] = isLoss ? encLoss(d) : encWin(d);
            if (d > T.maxWinPlies) T.maxWinPlies = d;
            // predecessors: the side that is NOT to move in idx made the last move (non-capturing)
            Pos p;
            decode(c, idx, p);
            w.setup(p);
            bool moverWhite = p.stm == 1;
            for (int i = 0; i < c.n; i++) {
                if (c.men[i].white != moverWhite) continue;
                char t = c.men[i].type;
                int cur = p.sq[i];
                int cx = cur & 7, cy = cur >> 3;
                auto pred = [&](int from) {
                    // position q: man i on `from`, mover to move
                    Pos q = p;
                    q.sq[i] = from;
                    q.stm = moverWhite ? 0 : 1;
                    w.board[cur] = -1;
                    w.board[from] = (int8_t)i;
                    bool ok = !adjacent(q.sq[0], q.sq[1]) && !w.kingAttacked(q, !moverWhite, -1);
                    w.board[from] = -1;
                    w.board[cur] = (int8_t)i;
                    if (!ok) return;
                    size_t qi = indexOf(c, q);
                    if (T.own[qi] != 0) return;
                    if (isLoss) {
                        if (d + 1 <= MAXD) bucket[d + 1].push_back((uint32_t)(qi * 2));
                    } else {
                        if (cnt[qi] == 0) return; // stalemate/finished bookkeeping
                        cnt[qi]--;
                        if (maxLoss[qi] < d + 1) maxLoss[qi] = (int8_t)(d + 1);
                        if (cnt[qi] == 0 && maxLoss[qi] <= MAXD) bucket[maxLoss[qi]].push_back((uint32_t)(qi * 2 + 1));
                    }
                };
                if (t == 'K' || t == 'N') {
                    const int(*dd)[2] = t == 'K' ? DIRS : NDIRS;
                    for (int k = 0; k < 8; k++) {
                        int x = cx + dd[k][0], y = cy + dd[k][1];
                        if (x < 0 || x > 7 || y < 0 || y > 7) continue;
                        if (w.board[y * 8 + x] >= 0) continue;
                        pred(y * 8 + x);
                    }
                } else {
                    int k0 = t == 'B' ? 4 : 0, k1 = t == 'R' ? 4 : 8;
                    for (int k = k0; k < k1; k++) {
                        int x = cx + DIRS[k][0], y = cy + DIRS[k][1];
                        while (x >= 0 && x <= 7 && y >= 0 && y <= 7 && w.board[y * 8 + x] < 0) {
                            pred(y * 8 + x);
                            x += DIRS[k][0];
                            y += DIRS[k][1];
                        }
                    }
                }
            }
            w.clear(p);
        }
        std::vector<uint32_t>().swap(bucket[d]);
    }
    T.val = T.own.data();
}

bool loadCached(TableImpl& T) {
    std::string path = g_cacheDir + "/dtm_" + T.key + ".bin";
    int fd = open(path.c_str(), O_RDONLY);
    if (fd < 0) return false;
    struct stat st;
    if (fstat(fd, &st) != 0 || (size_t)st.st_size != 2 * T.N + 16) { close(fd); return false; }
    void* m = mmap(nullptr, (size_t)st.st_size, PROT_READ, MAP_SHARED, fd, 0);
    close(fd);
    if (m == MAP_FAILED) return false;
    const unsigned char* h = (const unsigned char*)m;
    if (memcmp(h, "DTMORACLE1", 10) != 0) { munmap(m, (size_t)st.st_size); return false; }
    T.map = m;
    T.mapLen = (size_t)st.st_size;
    T.val = (const int8_t*)m + 16;
    T.maxWinPlies = h[10];
    return true;
}

void saveCache(const TableImpl& T) {
    mkdir(g_cacheDir.c_str(), 0777);
    std::string path = g_cacheDir + "/dtm_" + T.key + ".bin";
    std::string tmp = path + ".tmp" + std::to_string((long)getpid());
    FILE* f = fopen(tmp.c_str(), "wb");
    if (!f) return;
    unsigned char h[16];
    memset(h, 0, sizeof h);
    memcpy(h, "DTMORACLE1", 10);
    h[10] = (unsigned char)T.maxWinPlies;
    fwrite(h, 1, 16, f);
    fwrite(T.val, 1, 2 * T.N, f);
    fclose(f);
    rename(tmp.c_str(), path.c_str());
}

Value probeMen(const std::vector<Man>& menIn, const std::vector<int>& sqIn, bool whiteToMove) {
    Value r;
    if (menIn.size() <= 2) { r.kind = Value::DRAW; r.plies = 0; return r; }
    if (menIn.size() > 4) { r.kind = Value::NOT_COVERED; r.plies = 0; return r; }
    bool flip;
    std::string key = canonicalKey(menIn, flip);
    const Table& T = getTable(key);
    // map the given men onto the table's man order
    int sq[4];
    bool used[4] = {false, false, false, false};
    for (int i = 0; i < T.n; i++) {
        bool found = false;
        for (size_t j = 0; j < menIn.size(); j++) {
            if (used[j]) continue;
            bool w = flip ? !menIn[j].white : menIn[j].white;
            if (menIn[j].type == T.men[i].type && w == T.men[i].white) {
                used[j] = true;
                sq[i] = flip ? (sqIn[j] ^ 56) : sqIn[j];
                found = true;
                break;
            }
        }
        if (!found) { r.kind = Value::NOT_COVERED; r.plies = 0; return r; }
    }
    return T.probe(flip ? !whiteToMove : whiteToMove, sq);
}

} // namespace

Value Table::probe(bool whiteToMove, const int* sq) const {
    size_t idx = 0, mul = 1;
    for (int i = 0; i < n; i++) { idx += (size_t)sq[i] * mul; mul *= 64; }
    if (!whiteToMove) idx += N;
    return decodeVal(val[idx]);
}

const Table& getTable(const std::string& key) {
    auto it = g_tables.find(key);
    if (it != g_tables.end()) return *it->second;
    std::unique_ptr<TableImpl> T(new TableImpl());
    T->key = key;
    size_t v = key.find('v');
    std::string w = key.substr(1, v - 1), b = key.substr(v + 2);
    T->men.push_back({'K', true});
    T->men.push_back({'K', false});
    for (char ch : w) T->men.push_back({ch, true});
    for (char ch : b) T->men.push_back({ch, false});
    T->n = (int)T->men.size();
    T->N = 1;
    for (int i = 0; i < T->n; i++) T->N *= 64;
    TableImpl* raw = T.get();
    g_tables[key] = std::move(T);
    if (!loadCached(*raw)) {
        build(*raw);
        saveCache(*raw);
    }
    return *raw;
}

Value probe(const std::vector<Man>& men, const std::vector<int>& sq, bool whiteToMove) {
    for (const Man& m : men)
        if (typeRank(m.type) > 4) { Value r; r.kind = Value::NOT_COVERED; r.plies = 0; return r; }
    for (size_t i = 0; i < sq.size(); i++)
        for (size_t j = i + 1; j < sq.size(); j++)
            if (sq[i] == sq[j]) { Value r; r.kind = Value::ILLEGAL_POS; r.plies = 0; return r; }
    return probeMen(men, sq, whiteToMove);
}

std::vector<std::string> allKeys(int nMen) {
    static const char T[] = "QRBN";
    std::vector<std::string> out;
    if (nMen == 3) {
        for (int a = 0; a < 4; a++) out.push_back(std::string("K") + T[a] + "vK");
    } else if (nMen == 4) {
        for (int a = 0; a < 4; a++)
            for (int b = a; b < 4; b++) out.push_back(std::string("K") + T[a] + T[b] + "vK");
        for (int a = 0; a < 4; a++)
            for (int b = a; b < 4; b++) out.push_back(std::string("K") + T[a] + "vK" + T[b]);
    }
    return out;
}

} // namespace dtm
