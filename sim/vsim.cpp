// vsim kernel. See vsim.hpp. Compiled without -fsanitize=thread in every flavour.
#include "vsim.hpp"
#include <pthread.h>
#include <time.h>
#include <errno.h>
#include <unistd.h>
#include <sys/syscall.h>
#include <linux/futex.h>
#include <climits>
#include <cstdio>
#include <cstdlib>
#include <cstring>

extern "C" {
int __real_pthread_mutex_lock(pthread_mutex_t*);
int __real_pthread_mutex_trylock(pthread_mutex_t*);
int __real_pthread_mutex_unlock(pthread_mutex_t*);
int __real_pthread_create(pthread_t*, const pthread_attr_t*, void* (*)(void*), void*);
int __real_pthread_join(pthread_t, void**);
int __real_pthread_cond_wait(pthread_cond_t*, pthread_mutex_t*);
int __real_pthread_cond_timedwait(pthread_cond_t*, pthread_mutex_t*, const timespec*);
int __real_pthread_cond_clockwait(pthread_cond_t*, pthread_mutex_t*, clockid_t, const timespec*);
int __real_pthread_cond_signal(pthread_cond_t*);
int __real_pthread_cond_broadcast(pthread_cond_t*);
int __real_nanosleep(const timespec*, timespec*);
int __real_clock_nanosleep(clockid_t, int, const timespec*, timespec*);
int __real_clock_gettime(clockid_t, timespec*);
}

extern "C" { volatile unsigned long long vsim_progress = 0; }

namespace vsim {

enum St { RUNNABLE, BLK_MUTEX, BLK_COND, BLK_JOIN, BLK_SLEEP, BLK_EVENT, DONE };

struct Thr {
    int fut;
    St st;
    const void* obj;
    long long deadline;   // -1 = none
    bool timedOut;
    long frozenUntil;
    int prio;
    int role;
    int lastSite;
    long lastRun;        // step at which the thread was last chosen or became runnable (anti-starvation)
    bool seenRunnable;
    pthread_t pt;
    void* (*fn)(void*);
    void* arg;
};

static const int MAXT = 512;
static Thr th[MAXT];
static int nth = 0;
static int cur = 0;
static bool g_active = false;
static bool traceClock = false; // debugging aid: VSIM_TRACE_CLOCK=1 prints every clock read
static Config cfg;
static Stats st_;
static uint64_t rng = 0;
static long long vnow = 0;
static std::vector<Actor*> actors;
static std::vector<int> actorPrio;
static std::vector<long> actorSince; // step at which the actor became ready (-1 = not ready)
static int timerPrio = 0;
static long timerSince = -1;
static std::vector<long> pctPoints;
static int pctNext = 0;
static size_t freezeNext = 0, jumpNext = 0;
static __thread int me = -1;
static int lastSwitchSite = 0, lastSwitchRole = 0;

void (*onFatal)(const char*, const std::string&) = nullptr;
void (*sleepObserver)(int tid, long long b, long long e) = nullptr;

static inline uint64_t splitmix(uint64_t& s) {
    uint64_t z = (s += 0x9E3779B97F4A7C15ULL);
    z = (z ^ (z >> 30)) * 0xBF58476D1CE4E5B9ULL;
    z = (z ^ (z >> 27)) * 0x94D049BB133111EBULL;
    return z ^ (z >> 31);
}
uint64_t rnd() { return splitmix(rng); }
static double rnd01() { return (rnd() >> 11) * (1.0 / 9007199254740992.0); }

static void fwait(int* f) {
    while (__atomic_load_n(f, __ATOMIC_ACQUIRE) == 0)
        syscall(SYS_futex, f, FUTEX_WAIT_PRIVATE, 0, nullptr, nullptr, 0);
    __atomic_store_n(f, 0, __ATOMIC_RELAXED);
}
static void fwake(int* f) {
    __atomic_store_n(f, 1, __ATOMIC_RELEASE);
    syscall(SYS_futex, f, FUTEX_WAKE_PRIVATE, 1, nullptr, nullptr, 0);
}

std::string dumpThreads();
static void fatal(const char* kind, const std::string& detail) {
    if (onFatal)
        onFatal(kind, detail);
    fprintf(stderr, "VSIM FATAL %s: %s\n", kind, detail.c_str());
    _exit(90);
}

void fatalExternal(const char* kind, const std::string& detail) { fatal(kind, detail + " " + dumpThreads()); }

std::string dumpThreads() {
    static const char* names[] = {"RUNNABLE", "BLK_MUTEX", "BLK_COND", "BLK_JOIN", "BLK_SLEEP", "BLK_EVENT", "DONE"};
    std::string s;
    char buf[160];
    for (int i = 0; i < nth; i++) {
        snprintf(buf, sizeof buf, "t%d(role%d):%s%s site%d;", i, th[i].role, names[th[i].st],
                 th[i].deadline >= 0 ? "+timer" : "", th[i].lastSite);
        s += buf;
    }
    return s;
}

void init(const Config& c) {
    cfg = c;
    rng = c.schedSeed * 0x9E3779B97F4A7C15ULL + 0x1234567;
    vnow = c.startTimeNs;
    memset(&st_, 0, sizeof st_);
    st_.schedHash = 1469598103934665603ULL;
    nth = 1;
    me = 0;
    cur = 0;
    memset(&th[0], 0, sizeof(Thr));
    th[0].st = RUNNABLE;
    th[0].deadline = -1;
    th[0].pt = pthread_self();
    th[0].role = R_ENGINE;
    th[0].prio = cfg.pctDepth + 1 + (int)(rnd() % 1000);
    timerPrio = cfg.pctDepth + 1 + (int)(rnd() % 1000);
    pctPoints.clear();
    for (int i = 0; i < cfg.pctDepth; i++)
        pctPoints.push_back((long)(rnd() % (uint64_t)std::max(1L, cfg.pctHorizon)));
    for (size_t i = 0; i < pctPoints.size(); i++)
        for (size_t j = i + 1; j < pctPoints.size(); j++)
            if (pctPoints[j] < pctPoints[i]) std::swap(pctPoints[i], pctPoints[j]);
    pctNext = 0;
    freezeNext = jumpNext = 0;
    traceClock = getenv("VSIM_TRACE_CLOCK") != nullptr;
    g_active = true;
}

bool active() { return g_active && me >= 0; }
int self() { return me; }
int nthreads() { return nth; }
void setRole(int tid, int r) { if (tid >= 0 && tid < MAXT) th[tid].role = r; }
int role(int tid) { return th[tid].role; }
long long now() { return vnow; }
void advance(long long ns) { vnow += ns; }
const Stats& stats() { return st_; }

void addActor(Actor* a) {
    actors.push_back(a);
    actorPrio.push_back(cfg.pctDepth + 1 + (int)(rnd() % 1000));
    actorSince.push_back(-1);
}

long long nextDeadline() {
    long long d = -1;
    for (int i = 0; i < nth; i++)
        if (th[i].st != DONE && th[i].st != RUNNABLE && th[i].deadline >= 0)
            if (d < 0 || th[i].deadline < d) d = th[i].deadline;
    for (Actor* a : actors) {
        long long x = a->deadline();
        if (x >= 0 && (d < 0 || x < d)) d = x;
    }
    return d;
}

bool allParked() {
    for (int i = 0; i < nth; i++) {
        if (th[i].st == RUNNABLE) return false;
        if (th[i].st != DONE && th[i].deadline >= 0) return false;
    }
    return true;
}

void freezeRole(int r, long steps) {
    for (int i = 0; i < nth; i++)
        if (th[i].role == r && th[i].st != DONE) {
            th[i].frozenUntil = (long)st_.steps + steps;
            st_.freezesFired++;
            return;
        }
}

bool isBlockedIdle(int tid) {
    if (tid < 0 || tid >= nth) return true;
    St s = th[tid].st;
    return s == BLK_SLEEP || s == BLK_COND || s == BLK_JOIN || s == BLK_EVENT || s == DONE;
}

bool allOthersDone() {
    for (int i = 0; i < nth; i++)
        if (i != me && th[i].st != DONE) return false;
    return true;
}

bool anyRunnableExcept(int tid) {
    for (int i = 0; i < nth; i++)
        if (i != tid && th[i].st == RUNNABLE) return true;
    return false;
}

static void notePair(int toRole, int toSite) {
    int a = lastSwitchSite * R_NROLES + lastSwitchRole;
    int b = toSite * R_NROLES + toRole;
    st_.pairs[a][b >> 6] |= 1ULL << (b & 63);
}

long countPairs() {
    long n = 0;
    for (int a = 0; a < S_NSITES * R_NROLES; a++)
        n += __builtin_popcountll(st_.pairs[a][0]) + __builtin_popcountll(st_.pairs[a][1]);
    return n;
}

enum { C_ACTOR = 1000, C_TIMER = 2000 };

static int prioOf(int c) {
    if (c == C_TIMER) return timerPrio;
    if (c >= C_ACTOR) return actorPrio[c - C_ACTOR];
    return th[c].prio;
}
static void lowerPrio(int c, int p) {
    if (c == C_TIMER) timerPrio = p;
    else if (c >= C_ACTOR) actorPrio[c - C_ACTOR] = p;
    else th[c].prio = p;
}

static int choose(const int* cand, int n) {
    if (n == 1) return cand[0];
    st_.decisions++;
    switch (cfg.strategy) {
    default:
    case ST_UNIFORM:
        return cand[rnd() % n];
    case ST_STICKY: {
        bool curIn = false;
        for (int i = 0; i < n; i++) if (cand[i] == cur) curIn = true;
        if (curIn && rnd01() < cfg.stickyP) return cur;
        return cand[rnd() % n];
    }
    case ST_PCT: {
        if (rnd01() < cfg.pctEps) return cand[rnd() % n];
        int best = cand[0];
        for (int i = 1; i < n; i++) if (prioOf(cand[i]) > prioOf(best)) best = cand[i];
        return best;
    }
    case ST_RTB: {
        // run-to-block, lowest id next; a small random pre-emption rate keeps it fair
        if (rnd01() < cfg.pctEps) return cand[rnd() % n];
        for (int i = 0; i < n; i++) if (cand[i] == cur) return cur;
        return cand[0];
    }
    }
}

// The heart: decide who runs next. Called by the baton holder only.
static void reschedule(bool exiting) {
    for (;;) {
        st_.steps++;
        vsim_progress++;
        if ((long)st_.steps > cfg.maxSteps)
            fatal("budget", dumpThreads());
        while (freezeNext < cfg.freezes.size() && cfg.freezes[freezeNext].atStep <= (long)st_.steps) {
            const Freeze& f = cfg.freezes[freezeNext++];
            if (f.thread < nth && th[f.thread].st != DONE) {
                th[f.thread].frozenUntil = (long)st_.steps + f.duration;
                st_.freezesFired++;
            }
        }
        while (jumpNext < cfg.jumps.size() && cfg.jumps[jumpNext].atStep <= (long)st_.steps) {
            vnow += cfg.jumps[jumpNext].ns;
            st_.jumpedNs += cfg.jumps[jumpNext].ns;
            st_.jumpsFired++;
            jumpNext++;
        }
        // fire timers
        for (int i = 0; i < nth; i++) {
            Thr& t = th[i];
            if ((t.st == BLK_COND || t.st == BLK_SLEEP) && t.deadline >= 0 && t.deadline <= vnow) {
                t.st = RUNNABLE;
                t.timedOut = true;
                t.deadline = -1;
            }
        }
        if (cfg.spuriousP > 0 && rnd01() < cfg.spuriousP) {
            int w[MAXT], nw = 0;
            for (int i = 0; i < nth; i++) if (th[i].st == BLK_COND) w[nw++] = i;
            if (nw > 0) {
                Thr& t = th[w[rnd() % nw]];
                t.st = RUNNABLE;
                t.timedOut = false;
                t.deadline = -1;
                st_.spurious++;
            }
        }
        int cand[MAXT + 64], n = 0;
        bool timeRoleRunnable = false;
        int nFrozen = 0;
        for (int i = 0; i < nth; i++) {
            if (th[i].st != RUNNABLE) { th[i].seenRunnable = false; continue; }
            if (!th[i].seenRunnable) { th[i].seenRunnable = true; th[i].lastRun = (long)st_.steps; }
            if (th[i].frozenUntil > (long)st_.steps) { nFrozen++; continue; }
            cand[n++] = i;
            if (cfg.timeRoleMask & (1u << th[i].role)) timeRoleRunnable = true;
        }
        if ((uint64_t)n > st_.maxRunnable) st_.maxRunnable = n;
        bool actorReady = false;
        for (size_t i = 0; i < actors.size(); i++) {
            if (actors[i]->ready()) {
                cand[n++] = C_ACTOR + (int)i;
                actorReady = true;
                if (actorSince[i] < 0) actorSince[i] = (long)st_.steps;
            } else
                actorSince[i] = -1;
        }
        long long dl = nextDeadline();
        if (dl >= 0 && dl <= vnow) dl = -1; // already due: the owner is (or will be) a candidate
        if (dl >= 0 && !timeRoleRunnable && !actorReady) {
            cand[n++] = C_TIMER;
            if (timerSince < 0) timerSince = (long)st_.steps;
        } else
            timerSince = -1;
        if (n == 0) {
            if (nFrozen > 0) { // everything runnable is frozen: thaw
                for (int i = 0; i < nth; i++) th[i].frozenUntil = 0;
                continue;
            }
            if (dl >= 0) { vnow = dl; st_.timerJumps++; continue; }
            fatal("deadlock", dumpThreads());
        }
        int c = -1;
        for (int i = 0; i < n && c < 0; i++)
            if (cand[i] >= C_ACTOR && cand[i] < C_TIMER && actors[cand[i] - C_ACTOR]->urgent()) c = cand[i];
        if (c < 0 && cfg.starveLimit > 0) { // bounded unfairness: nobody stays runnable but unscheduled for too long
            long oldest = (long)st_.steps - cfg.starveLimit;
            for (int i = 0; i < n; i++) {
                long since = cand[i] == C_TIMER ? timerSince : cand[i] >= C_ACTOR ? actorSince[cand[i] - C_ACTOR] : th[cand[i]].lastRun;
                if (since < oldest) { oldest = since; c = cand[i]; }
            }
            if (c >= 0) st_.starveRescues++;
        }
        if (c < 0) c = choose(cand, n);
        if (c < C_ACTOR) th[c].lastRun = (long)st_.steps;
        else if (c == C_TIMER) timerSince = -1;
        else actorSince[c - C_ACTOR] = -1;
        if (cfg.strategy == ST_PCT && pctNext < (int)pctPoints.size() && (long)st_.steps >= pctPoints[pctNext]) {
            lowerPrio(c, cfg.pctDepth - pctNext);
            pctNext++;
        }
        st_.schedHash = (st_.schedHash ^ (uint64_t)(c * 131 + n)) * 1099511628211ULL;
        if (c == C_TIMER) {
            vnow = dl;
            st_.timerJumps++;
            continue;
        }
        if (c >= C_ACTOR) {
            actors[c - C_ACTOR]->step();
            continue;
        }
        if (c == me && !exiting)
            return;
        st_.switches++;
        notePair(th[c].role, th[c].lastSite);
        cur = c;
        int myId = me;
        fwake(&th[c].fut);
        if (!exiting)
            fwait(&th[myId].fut);
        return;
    }
}

void yield(int site) {
    if (!active()) return;
    th[me].lastSite = site;
    lastSwitchSite = site;
    lastSwitchRole = th[me].role;
    reschedule(false);
}

static void blockLoop(int site) {
    th[me].lastSite = site;
    lastSwitchSite = site;
    lastSwitchRole = th[me].role;
    while (th[me].st != RUNNABLE)
        reschedule(false);
}

void blockOn(const void* addr, int site) {
    th[me].st = BLK_EVENT;
    th[me].obj = addr;
    th[me].deadline = -1;
    blockLoop(site);
}

void wake(const void* addr) {
    for (int i = 0; i < nth; i++)
        if (th[i].st == BLK_EVENT && th[i].obj == addr) th[i].st = RUNNABLE;
}

static long long lateness() {
    if (cfg.lateTimerP > 0 && cfg.lateTimerMaxNs > 0 && rnd01() < cfg.lateTimerP) {
        st_.lateTimers++;
        return (long long)(rnd() % (uint64_t)cfg.lateTimerMaxNs);
    }
    return 0;
}

static void* trampoline(void* p) {
    int id = (int)(intptr_t)p;
    me = id;
    fwait(&th[id].fut);
    th[id].lastSite = S_START;
    void* r = th[id].fn(th[id].arg);
    th[id].st = DONE;
    th[id].deadline = -1;
    for (int i = 0; i < nth; i++)
        if (th[i].st == BLK_JOIN && th[i].obj == &th[id]) th[i].st = RUNNABLE;
    th[id].lastSite = S_EXIT;
    lastSwitchSite = S_EXIT;
    lastSwitchRole = th[id].role;
    reschedule(true);
    return r;
}

static int doLock(pthread_mutex_t* m) {
    for (;;) {
        int r = __real_pthread_mutex_trylock(m);
        if (r == 0) return 0;
        if (r != EBUSY) return r;
        th[me].st = BLK_MUTEX;
        th[me].obj = m;
        th[me].deadline = -1;
        blockLoop(S_MUTEX_LOCK);
    }
}

static int doUnlock(pthread_mutex_t* m) {
    int r = __real_pthread_mutex_unlock(m);
    for (int i = 0; i < nth; i++)
        if (th[i].st == BLK_MUTEX && th[i].obj == m) th[i].st = RUNNABLE;
    return r;
}

static int condWait(pthread_cond_t* c, pthread_mutex_t* m, const timespec* abs) {
    // A thread may be pre-empted between testing its predicate and entering the wait (still holding the mutex):
    // a notifier that changes the predicate WITHOUT the mutex can slip in here and its wake-up is lost.
    yield(S_COND_WAIT);
    Thr& t = th[me];
    t.st = BLK_COND;
    t.obj = c;
    t.timedOut = false;
    t.deadline = -1;
    if (abs) {
        long long d = abs->tv_sec * 1000000000LL + abs->tv_nsec;
        if (d < vnow) d = vnow;
        t.deadline = d + lateness();
    }
    doUnlock(m);
    blockLoop(S_COND_WAIT);
    bool to = t.timedOut;
    t.deadline = -1;
    doLock(m);
    return to ? ETIMEDOUT : 0;
}

} // namespace vsim

using namespace vsim;

extern "C" {

int __wrap_pthread_mutex_lock(pthread_mutex_t* m) {
    if (!active()) return __real_pthread_mutex_lock(m);
    yield(S_MUTEX_LOCK);
    return doLock(m);
}

int __wrap_pthread_mutex_trylock(pthread_mutex_t* m) {
    if (!active()) return __real_pthread_mutex_trylock(m);
    yield(S_MUTEX_LOCK);
    return __real_pthread_mutex_trylock(m);
}

int __wrap_pthread_mutex_unlock(pthread_mutex_t* m) {
    if (!active()) return __real_pthread_mutex_unlock(m);
    int r = doUnlock(m);
    yield(S_MUTEX_UNLOCK);
    return r;
}

int __wrap_pthread_cond_wait(pthread_cond_t* c, pthread_mutex_t* m) {
    if (!active()) return __real_pthread_cond_wait(c, m);
    return condWait(c, m, nullptr);
}

int __wrap_pthread_cond_timedwait(pthread_cond_t* c, pthread_mutex_t* m, const timespec* ts) {
    if (!active()) return __real_pthread_cond_timedwait(c, m, ts);
    return condWait(c, m, ts);
}

int __wrap_pthread_cond_clockwait(pthread_cond_t* c, pthread_mutex_t* m, clockid_t k, const timespec* ts) {
    if (!active()) return __real_pthread_cond_clockwait(c, m, k, ts);
    return condWait(c, m, ts);
}

int __wrap_pthread_cond_signal(pthread_cond_t* c) {
    if (!active()) return __real_pthread_cond_signal(c);
    int w[MAXT], nw = 0;
    for (int i = 0; i < nth; i++) if (th[i].st == BLK_COND && th[i].obj == c) w[nw++] = i;
    if (nw > 0) {
        Thr& t = th[w[nw == 1 ? 0 : rnd() % nw]];
        t.st = RUNNABLE;
        t.deadline = -1;
    }
    yield(S_COND_SIGNAL);
    return 0;
}

int __wrap_pthread_cond_broadcast(pthread_cond_t* c) {
    if (!active()) return __real_pthread_cond_broadcast(c);
    for (int i = 0; i < nth; i++)
        if (th[i].st == BLK_COND && th[i].obj == c) { th[i].st = RUNNABLE; th[i].deadline = -1; }
    yield(S_COND_SIGNAL);
    return 0;
}

int __wrap_pthread_create(pthread_t* pt, const pthread_attr_t* a, void* (*fn)(void*), void* arg) {
    if (!active()) return __real_pthread_create(pt, a, fn, arg);
    if (nth >= MAXT) { fprintf(stderr, "vsim: too many threads\n"); _exit(91); }
    int id = nth;
    Thr& t = th[id];
    memset(&t, 0, sizeof t);
    t.fn = fn;
    t.arg = arg;
    t.st = RUNNABLE;
    t.deadline = -1;
    t.role = (id == 1 && th[0].role == R_ENGINE) ? R_PROTO : R_HELPER;
    t.prio = cfg.pctDepth + 1 + (int)(rnd() % 1000);
    t.lastSite = S_START;
    t.lastRun = (long)st_.steps;
    nth++;
    st_.threadsCreated++;
    int r = __real_pthread_create(pt, a, trampoline, (void*)(intptr_t)id);
    if (r != 0) { nth--; return r; }
    t.pt = *pt;
    yield(S_CREATE);
    return 0;
}

int __wrap_pthread_join(pthread_t pt, void** rv) {
    if (!active()) return __real_pthread_join(pt, rv);
    int id = -1;
    for (int i = 0; i < nth; i++) if (pthread_equal(th[i].pt, pt)) id = i;
    if (id < 0) return __real_pthread_join(pt, rv);
    yield(S_JOIN);
    while (th[id].st != DONE) {
        th[me].st = BLK_JOIN;
        th[me].obj = &th[id];
        th[me].deadline = -1;
        blockLoop(S_JOIN);
    }
    int r = __real_pthread_join(pt, rv);
    memset(&th[id].pt, 0, sizeof(pthread_t)); // pthread_t values may be reused by later threads
    return r;
}

static int simSleep(long long ns) {
    if (ns <= 0) { yield(S_SLEEP); return 0; }
    Thr& t = th[me];
    t.st = BLK_SLEEP;
    t.deadline = vnow + ns + lateness();
    t.timedOut = false;
    long long b = vnow;
    blockLoop(S_SLEEP);
    t.deadline = -1;
    if (sleepObserver) sleepObserver(me, b, vnow);
    return 0;
}

int __wrap_nanosleep(const timespec* r, timespec* rem) {
    if (!active()) return __real_nanosleep(r, rem);
    return simSleep(r->tv_sec * 1000000000LL + r->tv_nsec);
}

int __wrap_clock_nanosleep(clockid_t k, int flags, const timespec* r, timespec* rem) {
    if (!active()) return __real_clock_nanosleep(k, flags, r, rem);
    long long ns = r->tv_sec * 1000000000LL + r->tv_nsec;
    if (flags & TIMER_ABSTIME) ns -= vnow;
    return simSleep(ns);
}

int __wrap_clock_gettime(clockid_t k, timespec* t) {
    if (!active()) return __real_clock_gettime(k, t);
    if (cfg.timeRoleMask & (1u << th[me].role))
        vnow += cfg.clockReadCostNs;
    st_.clockReads[th[me].role < R_NROLES ? th[me].role : 0]++;
    yield(S_CLOCK);
    if (traceClock) fprintf(stderr, "clock t%d role%d %lld us\n", me, th[me].role, vnow / 1000);
    t->tv_sec = vnow / 1000000000LL;
    t->tv_nsec = vnow % 1000000000LL;
    return 0;
}

} // extern "C"
