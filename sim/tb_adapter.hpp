// Adapter between the repo's Position and the independent DTM oracle.
#ifndef VERIF_TB_ADAPTER_HPP_
#define VERIF_TB_ADAPTER_HPP_
#include "dtm_oracle.hpp"
#include "position.hpp"
#include <string>
#include <vector>
namespace tba {
bool menOf(const Position& pos, std::vector<dtm::Man>& men, std::vector<int>& sq);
/** Oracle value of a position (NOT_COVERED for pawns, castling rights or more than four men). */
dtm::Value probe(const Position& pos);
/** The engine's internal score (ply-adjusted) corresponding to an oracle value. */
int engineScore(const dtm::Value& v, int ply);
int pieceCode(char type, bool white);
std::vector<dtm::Man> menOfKey(const std::string& key, bool flipColours);
}
#endif
