#include "posgen.hpp"
#include "textio.hpp"
#include "moveGen.hpp"
#include "chessError.hpp"
#include "uci_oracle.hpp"
#include <cstring>

namespace pg {

std::string moveStr(const Move& m) { return TextIO::moveToUCIString(m); }

void finish(GenPos& g, const Position& p) {
    g.pos = p;
    std::vector<Move> lm;
    uci::legalMoves(p, lm);
    g.legalUci.clear();
    for (const Move& m : lm) g.legalUci.push_back(moveStr(m));
    g.men = BitBoard::bitCount(p.occupiedBB());
}

static const char* openings[] = {
    "rnbqkbnr/pppppppp/8/8/8/8/PPPPPPPP/RNBQKBNR w KQkq - 0 1",
    "r1bqkbnr/pppp1ppp/2n5/4p3/4P3/5N2/PPPP1PPP/RNBQKB1R w KQkq - 2 3",
    "rnbqkb1r/pp2pppp/3p1n2/8/3NP3/8/PPP2PPP/RNBQKB1R w KQkq - 1 5",
    "r1bq1rk1/pp2ppbp/2np1np1/8/3NP3/2N1BP2/PPPQ2PP/R3KB1R w KQ - 3 9",
    "r3k2r/p1ppqpb1/bn2pnp1/3PN3/1p2P3/2N2Q1p/PPPBBPPP/R3K2R w KQkq - 0 1",
    "8/2p5/3p4/KP5r/1R3p1k/8/4P1P1/8 w - - 0 1",
    "r4rk1/1pp1qppp/p1np1n2/2b1p1B1/2B1P1b1/P1NP1N2/1PP1QPPP/R4RK1 w - - 0 10",
    "4k3/8/8/8/8/8/4P3/4K3 w - - 0 1",
    "n1n5/PPPk4/8/8/8/8/4Kppp/5N1N b - - 0 1",
    "r3k2r/8/8/8/8/8/8/R3K2R w KQkq - 0 1",
};

bool randomGame(vf::Rng& r, int plies, bool asFen, GenPos& out) {
    int oi = r.chance(0.5) ? 0 : (int)r.below(sizeof(openings) / sizeof(openings[0]));
    Position p = TextIO::readFEN(openings[oi]);
    std::string moves;
    UndoInfo ui;
    for (int i = 0; i < plies; i++) {
        std::vector<Move> lm;
        uci::legalMoves(p, lm);
        if (lm.empty()) break;
        // mild bias towards captures so that material thins out
        Move m = lm[r.below(lm.size())];
        if (r.chance(0.3))
            for (int k = 0; k < 4; k++) {
                const Move& c = lm[r.below(lm.size())];
                if (p.getPiece(c.to()) != Piece::EMPTY) { m = c; break; }
            }
        moves += " " + moveStr(m);
        p.makeMove(m, ui);
    }
    if (asFen || oi != 0) {
        if (asFen || moves.empty())
            out.positionCmd = "position fen " + TextIO::toFEN(p);
        else
            out.positionCmd = std::string("position fen ") + openings[oi] + " moves" + moves;
    } else
        out.positionCmd = "position startpos" + (moves.empty() ? "" : " moves" + moves);
    finish(out, p);
    return true;
}

bool sparse(vf::Rng& r, int nMen, bool noPawns, int hmc, GenPos& out) {
    static const char wp[] = "QRBNP", bp[] = "qrbnp";
    for (int tries = 0; tries < 200; tries++) {
        char board[64];
        memset(board, 0, sizeof board);
        auto place = [&](char c) {
            for (int t = 0; t < 100; t++) {
                int sq = (int)r.below(64);
                if (board[sq]) continue;
                int y = sq >> 3;
                if ((c == 'P' || c == 'p') && (y == 0 || y == 7)) continue;
                board[sq] = c;
                return;
            }
        };
        place('K');
        place('k');
        for (int i = 2; i < nMen; i++) {
            bool white = r.chance(0.5);
            int k = (int)r.below(noPawns ? 4 : 5);
            place(white ? wp[k] : bp[k]);
        }
        std::string fen;
        for (int y = 7; y >= 0; y--) {
            int empty = 0;
            for (int x = 0; x < 8; x++) {
                char c = board[y * 8 + x];
                if (!c) { empty++; continue; }
                if (empty) { fen += (char)('0' + empty); empty = 0; }
                fen += c;
            }
            if (empty) fen += (char)('0' + empty);
            if (y) fen += '/';
        }
        fen += r.chance(0.5) ? " w" : " b";
        fen += " - - " + std::to_string(hmc) + " " + std::to_string(1 + hmc / 2 + (int)r.below(40));
        try {
            Position p = TextIO::readFEN(fen);
            out.positionCmd = "position fen " + fen;
            finish(out, p);
            return true;
        } catch (const ChessParseError&) {
        }
    }
    return false;
}

bool sparseWithMoveCount(vf::Rng& r, int want, GenPos& out) {
    for (int tries = 0; tries < 3000; tries++) {
        int n = (int)r.range(3, 7);
        if (!sparse(r, n, r.chance(0.5), 0, out)) continue;
        if ((int)out.legalUci.size() == want) return true;
    }
    return false;
}

bool endgameClass(vf::Rng& r, GenPos& out) {
    // strong side first (upper case), weak side after 'v'
    static const char* classes[] = {"KRPvKR", "KRPvKR", "KQvKP", "KRvKP", "KPvK", "KBPvK", "KNPvK", "KBPvKB", "KBPvKN", "KRPPvKR", "KQvKRP", "KRBvKR", "KRNvKR",
                                    "KBNvK", "KQvKR", "KQPvKQ", "KBBvKN", "KNNvKP", "KRvKB", "KRvKN", "KPPvKP", "KQvKNN", "KRPvKB", "KBPPvKB", "KRPvKRP", "KQvKRR"};
    const std::string cls = classes[r.below(sizeof(classes) / sizeof(classes[0]))];
    const bool flip = r.chance(0.5);
    for (int tries = 0; tries < 200; tries++) {
        char board[64];
        memset(board, 0, sizeof board);
        bool weak = false, ok = true;
        for (char c : cls) {
            if (c == 'v') { weak = true; continue; }
            bool white = weak == flip; // strong side is white unless flipped
            char pc = white ? c : (char)tolower(c);
            bool placed = false;
            for (int t = 0; t < 100 && !placed; t++) {
                int sq = (int)r.below(64);
                if (board[sq]) continue;
                int y = sq >> 3;
                if (c == 'P' && (y == 0 || y == 7)) continue;
                board[sq] = pc;
                placed = true;
            }
            if (!placed) ok = false;
        }
        if (!ok) continue;
        std::string fen;
        for (int y = 7; y >= 0; y--) {
            int empty = 0;
            for (int x = 0; x < 8; x++) {
                char c = board[y * 8 + x];
                if (!c) { empty++; continue; }
                if (empty) { fen += (char)('0' + empty); empty = 0; }
                fen += c;
            }
            if (empty) fen += (char)('0' + empty);
            if (y) fen += '/';
        }
        int hmc = r.chance(0.2) ? (int)r.range(30, 80) : 0;
        fen += r.chance(0.5) ? " w" : " b";
        fen += " - - " + std::to_string(hmc) + " " + std::to_string(1 + hmc / 2 + (int)r.below(40));
        try {
            Position p = TextIO::readFEN(fen);
            out.positionCmd = "position fen " + fen;
            finish(out, p);
            return true;
        } catch (const ChessParseError&) {
        }
    }
    return false;
}

void anyPosition(vf::Rng& r, GenPos& out) {
    int k = (int)r.below(100);
    if (k < 45) { randomGame(r, (int)r.range(0, 80), r.chance(0.3), out); return; }
    if (k < 55) { randomGame(r, (int)r.range(80, 200), r.chance(0.5), out); return; }
    if (k < 70) { if (sparse(r, (int)r.range(3, 6), r.chance(0.6), r.chance(0.3) ? (int)r.range(90, 99) : 0, out)) return; }
    if (k < 80) { if (sparse(r, (int)r.range(6, 14), false, r.chance(0.2) ? (int)r.range(90, 99) : 0, out)) return; }
    if (k < 86) { if (sparseWithMoveCount(r, 0, out)) return; }
    if (k < 93) { if (sparseWithMoveCount(r, 1, out)) return; }
    randomGame(r, (int)r.range(0, 40), false, out);
}

} // namespace pg
