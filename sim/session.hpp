// Session run: the real UCIProtocol::main under vsim against a scripted GUI.
#ifndef VERIF_SESSION_HPP_
#define VERIF_SESSION_HPP_
#include "common.hpp"
#include "vsim.hpp"
#include <string>
#include <vector>

namespace sess {

struct OutLine {
    uint64_t seq;        // global event sequence number of the terminating newline
    long long t;         // virtual ns
    int tid;             // thread that wrote the newline
    bool torn;           // pieces from more than one thread
    std::string text;
    long mainTicks;      // engine-thread main-search node ticks so far
    long allTicks;       // engine-thread node ticks so far (all sites)
    long steps;          // sim steps so far
    long engClockReads;  // clock reads of the engine thread so far
    long workTicks;      // work ticks (on-demand tablebase generation) of the engine thread so far
};

struct SentLine {
    uint64_t seqSent;    // GUI put the line on stdin
    uint64_t seqRead;    // protocol thread's getline returned it (0 = never)
    long long tSent, tRead;
    std::string text;
    int opIndex;
    long mainTicksAtRead;
    long stepsAtSent;
};

struct LimitEv {
    uint64_t seq;
    long long t;
    long long minT, maxT, start;
    int early;
    int tid;
    long mainTicks;
    long allTicks;
    long engClockReads;
    long workTicks;
};

struct SleepEv { long long tBegin, tEnd; long mainTicks; };

struct History {
    std::vector<OutLine> out;
    std::vector<SentLine> sent;
    std::vector<LimitEv> limits;
    std::vector<long long> mainTickTimes;   // virtual ns after each engine-thread main-search tick
    std::vector<SleepEv> engineSleeps;      // engine-thread sleeps (throttling / ponder wait)
    std::vector<long long> workTickTimes;   // virtual ns after each engine-thread work tick (tablebase generation)
    long long maxWorkTickNs = 0;
    bool eofSent = false;
    uint64_t seqEof = 0;
    bool mainReturned = false;
    bool threadsAllDone = false;
    std::string partialLine;               // unterminated output at exit
    long idleChecksPassed = 0;
    uint64_t outHash = 1469598103934665603ULL;
    long collisionsInjected = 0, collisionsIllegalMove = 0;
    long allocFailures = 0;
    long evalChecks = 0;
    long ttPoints = 0;
    long helperTicks = 0;
    long stopInsideIter1 = 0;
};


/** Fill vsim::Config from scenario knobs/faults (shared by all harnesses). */
void configFromScenario(const vf::Scenario& sc, vsim::Config& cfg);

/** Draw scheduler / clock knobs into the scenario (swarm). */
void genSimKnobs(vf::Rng& r, vf::Scenario& sc, bool faults);

/** Load one of the synthetic networks into the INCBIN buffer (before any evaluator exists). */
void selectNet(const std::string& name);

/** Component harnesses (no UCI session): route the repo hooks to history h and take hook knobs from sc. */
void beginUnit(const vf::Scenario& sc, History& h);
void setTTYield(bool on);
long bestmovesSoFar();                    // number of bestmove lines printed so far in the running session

/** GUI ops of the form "x <text>" are handed to this callback (e.g. file manipulation between commands). */
extern void (*customOp)(const std::string& text);

/** Hooks for other checks that want to observe evaluations etc. inside session runs. */
extern void (*evalObserver)(const void* pos, int whiteContempt, int score, int fromCache);

void addStatsToResult(vf::Result& res);

} // namespace sess

/** Execute the scenario's ops as a UCI session. Never returns on simulator-fatal conditions.
 *  (Global name on purpose, see the comment at its definition.) */
extern "C" void harness_session_run(const void* scenario /* vf::Scenario */, void* history /* sess::History */, void* result /* vf::Result */);
#endif
