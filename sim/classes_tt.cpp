// C08: the transposition table never returns mixed or out-of-range data.
// Unit harness: 2..16 simulated threads hammer a few buckets of one TranspositionTable; vsim switches threads
// between the key word and the data word of every slot store and load (hook verif_tt_point).
#include "common.hpp"
#include "session.hpp"
#include "vsim.hpp"
#include "dtm_oracle.hpp"
#include "tb_adapter.hpp"
#include "transpositionTable.hpp"
#include "textio.hpp"
#include "constants.hpp"
#include <map>
#include <set>
#include <thread>
#include <mutex>
#include <condition_variable>
#include <cstring>

namespace sess { bool ttIndexViolation(std::string& detail); }
using vf::Rng;
using vf::Scenario;

namespace {

const U64 GEN_BUSY_MASK = (0xFULL << 42) | (1ULL << 41);

struct Shared {
    TranspositionTable* tt = nullptr;
    std::vector<U64> keys;
    std::map<U64, std::set<U64>> registry; // key -> data words (generation/busy masked) ever stored for it since the last clear
    std::map<U64, int> rawScore;            // data word -> raw stored score (for the ply-shift check)
    // inserts with an empty move keep the move already stored for the SAME key (documented behaviour of insert()):
    std::map<U64, std::set<U64>> noMoveRegistry; // key -> data words (move bits zero) stored with an empty move
    std::map<U64, std::set<U64>> moveBits;       // key -> move bits ever stored for exactly that key
    long emptyMoveInserts = 0, keptMoveHits = 0;
    long inserts = 0, probes = 0, hits = 0, misses = 0, mateShiftChecks = 0, busySets = 0;
    long counter = 0;
    vf::Result* res = nullptr;
    int contempt = 0;
};

// The table keeps one key space per contempt value; so does the oracle.
U64 regKey(const Shared& S, U64 key) { return key ^ (0xD1B54A32D192ED03ULL * (U64)(unsigned)(S.contempt + 1000)); }

void doInsert(Shared& S, Rng& r) {
    U64 key = S.keys[r.below(S.keys.size())];
    long c = ++S.counter;
    int from = (int)r.below(64), to = (int)r.below(64);
    if (to == from) to = (from + 1 + (int)r.below(62)) % 64;
    if (to == from) to = (from + 1) % 64;
    static const int promo[] = {Piece::EMPTY, Piece::EMPTY, Piece::EMPTY, Piece::WQUEEN, Piece::BKNIGHT};
    Move m(Square(from), Square(to), promo[r.below(5)]);
    const bool emptyMove = r.chance(0.2); // fail-low nodes and stand-pat store no move
    if (emptyMove) m = Move();
    int type = (int)r.range(1, 3);
    int ply = (int)r.below(60);
    int depth = (int)((c >> 16) & 0xff);
    int evalScore = (int)(short)(c & 0xffff);
    int score;
    int kind = (int)r.below(10);
    using namespace SearchConst;
    if (kind < 6) score = (int)r.range(-3000, 3000);
    else if (kind < 8) score = MATE0 - ply - 1 - 2 * (int)r.below(40);      // win score seen from ply
    else score = -(MATE0 - ply - 2 - 2 * (int)r.below(40));                  // loss score
    m.setScore(score);
    // expected record (same public field setters on a local entry, generation/busy left zero)
    TranspositionTable::TTEntry e;
    e.setMove(m);
    e.setScore(score, ply);
    e.setDepth(depth);
    e.setType(type);
    e.setEvalScore(evalScore);
    U64 data = e.getData() & ~GEN_BUSY_MASK;
    int raw = score;
    if (isWinScore(score)) raw = score + ply;
    else if (isLoseScore(score)) raw = score - ply;
    // register BEFORE the store becomes visible (another thread may probe between the two halves)
    const U64 rk = regKey(S, key);
    if (emptyMove) { S.noMoveRegistry[rk].insert(data); S.emptyMoveInserts++; }
    else { S.registry[rk].insert(data); S.moveBits[rk].insert(data & 0xFFFFULL); }
    S.rawScore[data] = raw;
    S.inserts++;
    S.tt->insert(key, m, type, ply, depth, evalScore);
}

void doProbe(Shared& S, Rng& r) {
    U64 key = r.chance(0.9) ? S.keys[r.below(S.keys.size())] : r.next();
    TranspositionTable::TTEntry e;
    S.tt->probe(key, e);
    S.probes++;
    if (e.getType() == TType::T_EMPTY) { S.misses++; return; }
    S.hits++;
    U64 data = e.getData() & ~GEN_BUSY_MASK;
    const U64 rk = regKey(S, key);
    auto it = S.registry.find(rk);
    bool known = it != S.registry.end() && it->second.count(data);
    if (!known) {
        // record stored with an empty move: all other fields as one unit; the move is empty or one stored for this very key
        auto nm = S.noMoveRegistry.find(rk);
        U64 mv = data & 0xFFFFULL, rest = data & ~0xFFFFULL;
        if (nm != S.noMoveRegistry.end() && nm->second.count(rest) && (mv == 0 || S.moveBits[rk].count(mv))) {
            known = true;
            if (mv != 0) S.keptMoveHits++;
            data = rest;
        }
    }
    if (!known) {
        char buf[200];
        snprintf(buf, sizeof buf, "probe(%016llx) under contempt %d returned data %016llx which was never stored for this key in this contempt key space (%zu records registered for it)",
                 (unsigned long long)key, S.contempt, (unsigned long long)e.getData(), it == S.registry.end() ? (size_t)0 : it->second.size());
        std::string extra;
        for (int c = -50; c <= 50; c++) {
            U64 k2 = key ^ (0xD1B54A32D192ED03ULL * (U64)(unsigned)(c + 1000));
            auto i2 = S.registry.find(k2);
            if (i2 != S.registry.end() && i2->second.count(data)) extra += " [the same record was stored for this key under contempt " + std::to_string(c) + "]";
            auto n2 = S.noMoveRegistry.find(k2);
            if (n2 != S.noMoveRegistry.end() && n2->second.count(data & ~0xFFFFULL)) extra += " [stored with an empty move under contempt " + std::to_string(c) + "]";
        }
        S.res->violate("C08", "mixed-entry", buf + extra);
        return;
    }
    // ply shift of mate scores
    int raw = S.rawScore[data];
    int p2 = (int)r.below(60);
    int got = e.getScore(p2);
    int want = raw;
    using namespace SearchConst;
    if (isWinScore(raw)) want = raw - p2;
    else if (isLoseScore(raw)) want = raw + p2;
    if (isWinScore(raw) || isLoseScore(raw)) S.mateShiftChecks++;
    if (got != want)
        S.res->violate("C08", "mate-score-shift", "stored raw score " + std::to_string(raw) + " read at ply " + std::to_string(p2) + " gives " +
                       std::to_string(got) + ", expected " + std::to_string(want));
    if (r.chance(0.1)) { S.tt->setBusy(e, p2); S.busySets++; }
}

vf::Result* g_res = nullptr;
void fatalC08(const char* kind, const std::string& detail) {
    g_res->violate("C08", std::string("sim-") + kind, detail);
    vf::emitResultAndExit(*g_res);
}

U64 regionChecksum(TranspositionTable& tt, U64 bytes) {
    U64 h = 1469598103934665603ULL;
    U64 total = tt.byteSize();
    for (U64 i = total - bytes; i < total; i++) h = (h ^ tt.getByte(i)) * 1099511628211ULL;
    return h;
}

void runC08(const Scenario& sc, vf::Result& res) {
    g_res = &res;
    sess::History h;
    sess::beginUnit(sc, h);
    Rng r(sc.seed, 3);
    vsim::Config cfg;
    sess::configFromScenario(sc, cfg);
    cfg.timeRoleMask = 0;
    vsim::onFatal = fatalC08;
    vsim::init(cfg);
    Shared S;
    S.res = &res;
    const int nThreads = (int)sc.knobInt("threads", 4);
    const int nKeys = (int)sc.knobInt("keys", 6);
    const long opsPerThread = (long)sc.knobInt("ops", 200);
    const int phases = (int)sc.knobInt("phases", 2);
    U64 entries = (U64)sc.knobInt("entries", 1024);
    TranspositionTable tt(entries);
    S.tt = &tt;
    bool tbResident = false;
    U64 tbSum = 0;
    std::vector<dtm::Man> tbMen;
    Position tbRoot;
    for (int ph = 0; ph < phases; ph++) {
        // keys: few buckets; same low bits / same top bits so that they collide in one or two buckets
        const bool keepKeys = ph > 0 && r.chance(0.5); // the same positions come back, possibly under another contempt
        if (!keepKeys) S.keys.clear();
        U64 base = r.next();
        for (int i = 0; i < nKeys && !keepKeys; i++) {
            U64 k = base;
            int mode = (int)r.below(3);
            if (mode == 0) k ^= (r.next() & 0x0000FFFFFFFF0000ULL);          // same bucket (same top 16 and low bits), other middle bits
            else if (mode == 1) k ^= (U64)r.below(4);                         // same bucket, other slot-offset bits
            else k = r.next();
            S.keys.push_back(k);
        }
        if (r.chance(0.4)) { S.contempt = r.chance(0.4) ? 0 : (int)r.range(-50, 50); tt.setWhiteContempt(S.contempt); }
        sess::setTTYield(sc.knobInt("tt_yield", 1) != 0);
        std::vector<std::thread> th;
        for (int t = 0; t < nThreads; t++) {
            uint64_t tseed = sc.seed * 1315423911ULL + (uint64_t)ph * 977 + (uint64_t)t;
            th.emplace_back([&S, tseed, opsPerThread]() {
                Rng tr(tseed, 11);
                for (long i = 0; i < opsPerThread; i++) {
                    if (tr.chance(0.45)) doInsert(S, tr);
                    else doProbe(S, tr);
                }
            });
        }
        for (auto& t : th) t.join();
        sess::setTTYield(false);
        if (tbResident) {
            U64 sum2 = regionChecksum(tt, 5 * 1024 * 1024);
            res.counters["tb_region_checksums"]++;
            if (sum2 != tbSum)
                res.violate("C08", "tablebase-region-overwritten", "bytes of the resident on-demand tablebase changed during ordinary insert/probe traffic");
        }
        // quiescent operations between phases (the engine performs them only when no search runs)
        int q = (int)r.below(6);
        if (tbResident && r.chance(0.4)) q = 5;
        if (q == 0) {
            tt.clear();
            S.registry.clear(); S.noMoveRegistry.clear(); S.moveBits.clear();
            res.counters["op_clear"]++;
            if (tbResident) {
                int sc2;
                if (tt.probeDTM(tbRoot, 0, sc2))
                    res.violate("C08", "tablebase-survives-clear", "after clear() the on-demand tablebase still answers although its memory was zeroed and is used for hashing again");
                res.counters["probe_clear_with_resident_table"]++;
            }
            tbResident = false;
        }
        else if (q == 1) {
            static const U64 sizes[] = {512, 516, 1000, 1024, 4096, 65536, 65536 * 3, 100000, 262144, 524288 + 4, 65536 * 8, 65536 * 16};
            U64 ne = sizes[r.below(sizeof(sizes) / sizeof(sizes[0]))];
            if (r.chance(0.3)) ne = (U64)r.range(512, 300000);
            const U64 bytesBefore = tt.byteSize();
            tt.reSize(ne);
            if (tt.byteSize() != bytesBefore) { // a resize to the current size keeps the table and everything in it
                S.registry.clear(); S.noMoveRegistry.clear(); S.moveBits.clear();
                tbResident = false;
            } else
                res.counters["probe_resize_same_size"]++;
            res.counters["op_resize"]++;
        } else if (q == 2) { tt.nextGeneration(); res.counters["op_next_generation"]++; }
        else if (q == 3 && tt.byteSize() >= 8 * 1024 * 1024) {
            // bring an on-demand tablebase into the table
            tbMen = tba::menOfKey(r.chance(0.5) ? "KQvK" : "KRvK", r.chance(0.5));
            Position p;
            int sq[3] = {(int)r.below(64), 0, 0};
            do { sq[1] = (int)r.below(64); } while (sq[1] == sq[0] || (abs((sq[1] & 7) - (sq[0] & 7)) <= 1 && abs((sq[1] >> 3) - (sq[0] >> 3)) <= 1));
            do { sq[2] = (int)r.below(64); } while (sq[2] == sq[0] || sq[2] == sq[1]);
            for (int i = 0; i < 3; i++) p.setPiece(Square(sq[i]), tba::pieceCode(tbMen[i].type, tbMen[i].white));
            // side to move must not be able to capture the king: let the side with the extra piece move
            p.setWhiteMove(tbMen[2].white);
            RelaxedShared<S64> maxT;
            maxT = -1;
            try {
                if (tt.updateTB(p, maxT)) {
                    tbResident = true;
                    tbRoot = p;
                    tbSum = regionChecksum(tt, 5 * 1024 * 1024);
                    res.counters["op_update_tb"]++;
                    // entries that lived in the region that now holds the tablebase are gone; others stay valid
                }
            } catch (...) {
            }
        } else if (q == 5 && tbResident) {
            // searches of roots the on-demand tablebase does not cover: the table stays installed (and its memory stays
            // reserved) for a few of them and is released after more than four in a row
            Position big = TextIO::readFEN(TextIO::startPosFEN);
            RelaxedShared<S64> maxT;
            maxT = -1;
            int n = (int)r.range(1, 6);
            for (int i = 0; i < n; i++) tt.updateTB(big, maxT);
            int sc2;
            tbResident = tt.probeDTM(tbRoot, 0, sc2);
            res.counters["op_unsuitable_roots"] += n;
            res.counters[tbResident ? "probe_table_kept_after_unsuitable_root" : "probe_table_released_after_unsuitable_roots"]++;
        } else if (q == 4) {
            // index sweep: all 2^16 values of the top bits x boundary low bits
            U64 lows[] = {0, 3, 4, 7, 0xFFFFULL, 0xFFFFFFFFULL, 0xFFFFFFFFFFFFULL, r.next() & 0xFFFFFFFFFFFFULL};
            TranspositionTable::TTEntry e;
            for (U64 top = 0; top < 65536; top++)
                for (U64 lo : lows) tt.probe((top << 48) | lo, e);
            res.counters["index_sweeps"]++;
        }
    }
    std::string d;
    if (sess::ttIndexViolation(d)) res.violate("C08", "tt-index-out-of-range", d);
    sess::addStatsToResult(res);
    res.counters["tt_inserts"] = S.inserts;
    res.counters["tt_empty_move_inserts"] = S.emptyMoveInserts;
    res.counters["probe_hit_with_kept_move"] = S.keptMoveHits;
    res.counters["tt_probes"] = S.probes;
    res.counters["tt_hits"] = S.hits;
    res.counters["tt_misses"] = S.misses;
    res.counters["mate_shift_checks"] = S.mateShiftChecks;
    res.counters["set_busy"] = S.busySets;
    res.counters["tt_points"] = h.ttPoints;
    res.counters["nontrivial"] = S.hits > 0 && vsim::stats().switches > 10;
}

void genC08(uint64_t seed, int tier, Scenario& sc) {
    Rng r(seed, 1);
    sc.cls = "C08";
    sc.seed = seed;
    sess::genSimKnobs(r, sc, false);
    sc.set("strategy", r.chance(0.6) ? vsim::ST_UNIFORM : (r.chance(0.5) ? vsim::ST_PCT : vsim::ST_STICKY));
    if (sc.knobInt("strategy", 0) == vsim::ST_STICKY) sc.setD("sticky_p", 0.5);
    sc.set("starve_limit", r.chance(0.5) ? 0 : 30);
    sc.set("threads", r.range(2, 16));
    sc.set("keys", r.range(1, 8));
    sc.set("ops", r.logRange(20, tier > 0 ? 2000 : 300));
    sc.set("phases", r.range(1, 4));
    sc.set("tt_yield", 1);
    static const long long sizes[] = {512, 512, 1024, 1000, 4096, 65536, 100000, 65536 * 8, 65536 * 8, 65536 * 16};
    sc.set("entries", sizes[r.below(10)]);
}

vf::ClassRegistrar regC08({"C08", "C08", "unit", genC08, runC08});

} // namespace
