// vsim: deterministic baton scheduler + virtual clock over real pthreads.
// Exactly one registered thread runs at a time; every intercepted operation is a
// "sim point" at which a seeded PRNG decides who runs next.
// This translation unit is always compiled WITHOUT -fsanitize=thread (see DESIGN.md 3.8).
#ifndef VSIM_HPP_
#define VSIM_HPP_
#include <cstdint>
#include <string>
#include <vector>

/** Monotone progress counter (simulation steps; the harness adds node ticks) read by the wall-clock watchdog of a run. */
extern "C" volatile unsigned long long vsim_progress;

namespace vsim {

enum Site {
    S_MUTEX_LOCK, S_MUTEX_UNLOCK, S_COND_WAIT, S_COND_SIGNAL, S_CREATE, S_START, S_JOIN,
    S_EXIT, S_SLEEP, S_CLOCK, S_OUT, S_IN, S_TICK, S_TT, S_USER, S_NSITES
};
enum Role { R_ENGINE, R_PROTO, R_HELPER, R_ACTOR, R_TIMER, R_NROLES };

enum Strategy { ST_UNIFORM = 0, ST_STICKY = 1, ST_PCT = 2, ST_RTB = 3 };

struct Freeze { long atStep; int thread; long duration; };
struct ClockJump { long atStep; long long ns; };

struct Config {
    uint64_t schedSeed = 1;
    int strategy = ST_UNIFORM;
    double stickyP = 0.9;
    int pctDepth = 2;
    long pctHorizon = 20000;      // change points are drawn from [0, pctHorizon)
    double pctEps = 0.05;         // probability of a uniformly random pick (fairness)
    double spuriousP = 0.0;       // per scheduling decision: wake one condvar waiter without signal
    double lateTimerP = 0.0;      // per timed wait/sleep: overshoot
    long long lateTimerMaxNs = 0;
    long long clockReadCostNs = 1000;
    long maxSteps = 4000000;
    long starveLimit = 40;        // a runnable thread is scheduled at the latest after this many steps (0 = off)
    unsigned timeRoleMask = (1u << R_ENGINE) | (1u << R_PROTO); // roles whose runnability blocks timer jumps
    long long startTimeNs = 1000LL * 1000000000LL;
    std::vector<Freeze> freezes;
    std::vector<ClockJump> jumps;
};

/** A pseudo-thread living inside the scheduler (the simulated GUI, fault injectors...). */
struct Actor {
    virtual ~Actor() {}
    virtual bool ready() = 0;            // may act now
    virtual long long deadline() = 0;    // absolute virtual ns at which it becomes ready, or -1
    virtual void step() = 0;             // perform one action (runs under the baton)
    virtual bool urgent() { return false; } // when ready, act before anything else is scheduled (fault injectors)
};

struct Stats {
    uint64_t steps = 0, switches = 0, schedHash = 0, timerJumps = 0, spurious = 0, lateTimers = 0,
             freezesFired = 0, jumpsFired = 0, starveRescues = 0, threadsCreated = 0, maxRunnable = 0, decisions = 0;
    long long jumpedNs = 0;               // total injected clock jump
    uint64_t clockReads[R_NROLES];        // clock reads per role
    uint64_t pairs[S_NSITES * R_NROLES][2]; // bitset over (site,role)->(site,role) context switches
};

void init(const Config& cfg);            // calling thread becomes thread 0
bool active();
int self();                              // thread id or -1
int nthreads();
void setRole(int tid, int role);
int role(int tid);
/** Stall fault injected from a script: the first thread with this role is not scheduled for the next n steps. */
void freezeRole(int role, long steps);
void yield(int site);                    // sim point
long long now();                         // virtual ns
void advance(long long ns);              // work performed by the calling thread
void addActor(Actor* a);
void blockOn(const void* addr, int site);// park calling thread until wake(addr)
void wake(const void* addr);
bool allParked();                        // no thread runnable, none waiting on a timer
bool anyRunnableExcept(int tid);
bool isBlockedIdle(int tid);             // thread is parked in a sleep / condvar / join / event wait
bool allOthersDone();                    // every thread except the caller has finished
long long nextDeadline();                // earliest pending timer or -1
const Stats& stats();
std::string dumpThreads();
void fatalExternal(const char* kind, const std::string& detail); // harness-detected budget overrun
uint64_t rnd();                          // scheduler stream (do not use for workloads)

/** Called on deadlock / step budget overrun. Must not return. */
extern void (*onFatal)(const char* kind, const std::string& detail);

extern void (*sleepObserver)(int tid, long long begin, long long end);
long countPairs();

} // namespace vsim
#endif
