// C19: book-builder graph scores stay at their defined fixed point.
// Unit harness through the declared test friend (class BookBuildTest): random operation sequences on a
// BookBuild::Book, a complete scan of the defining equations after every operation against an independent
// reference graph (bookref), save/load, and crash-restart from a backup log cut at an arbitrary byte.
#include "common.hpp"
#include "session.hpp"
#include "uci_oracle.hpp"
#include "bookbuild.hpp"
#include "textio.hpp"
#include "moveGen.hpp"
#include "constants.hpp"
#include <climits>
#include <deque>
#include <fstream>
#include <iostream>
#include <map>
#include <set>
#include <sstream>
#include <unistd.h>

using vf::Rng;
using vf::Scenario;
using BookBuild::BookNode;
using BookBuild::BookData;
using BookBuild::IGNORE_SCORE;
using BookBuild::INVALID_SCORE;

class BookBuildTest {
public:
    static void addRoot(BookBuild::Book& b) { b.addRootNode(); }
    static void addPos(BookBuild::Book& b, Position& pos, const Move& m, std::vector<U64>& ts) { b.addPosToBook(pos, m, ts); }
    static BookNode* node(BookBuild::Book& b, U64 h) { return b.getBookNode(h); }
    static BookData& data(BookBuild::Book& b) { return b.bookData; }
    static void addPending(BookBuild::Book& b, U64 h) { b.addPending(h); }
    static void removePending(BookBuild::Book& b, U64 h) { b.removePending(h); }
    static void writeBackup(BookBuild::Book& b, const BookNode& n) { b.writeBackup(n); }
    static std::vector<Move> movesToSearch(BookBuild::Book& b, Position& p) { return b.getMovesToSearch(p); }
    static std::vector<U64> keys(BookBuild::Book& b) { std::vector<U64> k; for (auto& e : b.bookNodes) k.push_back(e.first); return k; }
};

namespace {

struct RefNode {
    Position pos;
    Move bestMove;
    int score = INVALID_SCORE;
    int time = 0;
};
using Ref = std::map<U64, RefNode>;

struct Edge { U64 parent; U16 move; U64 child; };

void refEdges(const Ref& ref, std::vector<Edge>& edges) {
    for (auto& kv : ref) {
        Position p = kv.second.pos;
        std::vector<Move> lm;
        uci::legalMoves(p, lm);
        UndoInfo ui;
        for (const Move& m : lm) {
            p.makeMove(m, ui);
            U64 h = p.bookHash();
            if (ref.count(h)) edges.push_back({kv.first, (U16)m.getCompressedMove(), h});
            p.unMakeMove(m, ui);
        }
    }
}

int negate(int s) {
    if (s == IGNORE_SCORE || s == INVALID_SCORE) return s;
    if (SearchConst::isWinScore(s)) return -(s - 1);
    if (SearchConst::isLoseScore(s)) return -(s + 1);
    return -s;
}

struct Costs { int depthCost, own, other; };

/** Complete scan: every node, the defining equations given the neighbours' current values. */
std::string scan(BookBuild::Book& book, const Ref& ref, const Costs& K, const std::set<U64>& pending, bool checkSearchData) {
    std::vector<U64> keys = BookBuildTest::keys(book);
    std::set<U64> keySet(keys.begin(), keys.end());
    for (auto& kv : ref) if (!keySet.count(kv.first)) return "position " + TextIO::toFEN(kv.second.pos) + " is missing from the book";
    for (U64 k : keys) if (!ref.count(k)) return "book contains a node that was never added (hash " + vf::hex64(k) + ")";
    std::vector<Edge> edges;
    refEdges(ref, edges);
    std::map<U64, std::vector<Edge>> out, in;
    for (auto& e : edges) { out[e.parent].push_back(e); in[e.child].push_back(e); }
    // breadth-first depth from the root in the reference graph
    std::map<U64, int> depth;
    U64 rootHash = TextIO::readFEN(TextIO::startPosFEN).bookHash();
    std::deque<U64> q;
    depth[rootHash] = 0;
    q.push_back(rootHash);
    while (!q.empty()) {
        U64 h = q.front();
        q.pop_front();
        for (auto& e : out[h]) if (!depth.count(e.child)) { depth[e.child] = depth[h] + 1; q.push_back(e.child); }
    }
    for (auto& kv : ref) {
        U64 h = kv.first;
        BookNode* n = BookBuildTest::node(book, h);
        std::string where = " at " + TextIO::toFEN(kv.second.pos);
        // --- links
        if (n->getChildren().size() != out[h].size()) return "node has " + std::to_string(n->getChildren().size()) + " children, reference has " + std::to_string(out[h].size()) + where;
        for (auto& e : out[h]) {
            auto it = n->getChildren().find(e.move);
            if (it == n->getChildren().end() || it->second != BookBuildTest::node(book, e.child)) return "child link missing or wrong" + where;
            if (!it->second->getParents().count(BookNode::ParentInfo(e.move, n))) return "child does not link back to its parent" + where;
        }
        if (n->getParents().size() != in[h].size()) return "node has " + std::to_string(n->getParents().size()) + " parents, reference has " + std::to_string(in[h].size()) + where;
        for (auto& e : in[h]) {
            BookNode* p = BookBuildTest::node(book, e.parent);
            if (!n->getParents().count(BookNode::ParentInfo(e.move, p))) return "parent link missing" + where;
        }
        // --- depth
        if (!depth.count(h)) return "node unreachable in the reference graph" + where;
        if (n->getDepth() != depth[h]) return "depth " + std::to_string(n->getDepth()) + " but the shortest distance from the root is " + std::to_string(depth[h]) + where;
        // --- search data
        if (checkSearchData) {
            if (n->getSearchScore() != (S16)kv.second.score) return "search score " + std::to_string(n->getSearchScore()) + " expected " + std::to_string(kv.second.score) + where;
            if (kv.second.score != INVALID_SCORE && !(n->getBestNonBookMove() == kv.second.bestMove)) return "best non-book move differs" + where;
        }
        // --- negamax
        const int ss = n->getSearchScore();
        int nm = ss;
        const BookNode* coveredBy = nullptr;
        {
            auto it = n->getChildren().find(n->getBestNonBookMove().getCompressedMove());
            if (it != n->getChildren().end()) {
                coveredBy = it->second;
                if (it->second->getNegaMaxScore() != INVALID_SCORE) nm = IGNORE_SCORE;
            }
        }
        if (nm != INVALID_SCORE)
            for (auto& c : n->getChildren()) nm = std::max(nm, negate(c.second->getNegaMaxScore()));
        if (n->getNegaMaxScore() != nm) return "negamax score " + std::to_string(n->getNegaMaxScore()) + " but the defining equation gives " + std::to_string(nm) + where;
        if (n->getNegaMaxScore() == IGNORE_SCORE) return "negamax score equals IGNORE_SCORE" + where;
        // --- expansion costs
        for (int w = 0; w < 2; w++) {
            bool white = w == 0;
            bool wtm = n->getDepth() % 2 == 0;
            int kErr = (wtm == white) ? K.own : K.other;
            int cost = IGNORE_SCORE;
            if (!pending.count(h)) {
                if (ss == INVALID_SCORE) cost = INVALID_SCORE;
                else if (ss != IGNORE_SCORE) cost = coveredBy ? -10000 : (n->getNegaMaxScore() - ss) * kErr;
            }
            for (auto& c : n->getChildren()) {
                int cc = white ? c.second->getExpansionCostWhite() : c.second->getExpansionCostBlack();
                if (cc == INVALID_SCORE) cost = INVALID_SCORE;
            }
            for (auto& c : n->getChildren()) {
                int cc = white ? c.second->getExpansionCostWhite() : c.second->getExpansionCostBlack();
                if (cost != INVALID_SCORE && cc != IGNORE_SCORE) {
                    int moveError = n->getNegaMaxScore() == INVALID_SCORE ? 1000 : n->getNegaMaxScore() - negate(c.second->getNegaMaxScore());
                    int v = cc;
                    if (cc != IGNORE_SCORE && cc != INVALID_SCORE) v = cc + K.depthCost + moveError * kErr;
                    if (cost == IGNORE_SCORE || cost > v) cost = v;
                }
            }
            int got = white ? n->getExpansionCostWhite() : n->getExpansionCostBlack();
            if (got != cost) return std::string("expansion cost (") + (white ? "white" : "black") + ") " + std::to_string(got) + " but the defining equation gives " + std::to_string(cost) + where;
        }
        // --- path errors
        if (n->getDepth() == 0) {
            if (n->getPathErrorWhite() != 0 || n->getPathErrorBlack() != 0) return "root path error not zero";
        } else {
            int pw = INT_MAX, pb = INT_MAX;
            for (auto& pi : n->getParents()) {
                BookNode* p = pi.parent;
                int ew = p->getPathErrorWhite(), eb = p->getPathErrorBlack();
                if (ew == INVALID_SCORE || eb == INVALID_SCORE) continue;
                if (n->getNegaMaxScore() == INVALID_SCORE || p->getNegaMaxScore() == INVALID_SCORE) continue;
                int delta = p->getNegaMaxScore() - negate(n->getNegaMaxScore());
                if (n->getDepth() % 2 != 0) ew += delta; else eb += delta;
                pw = std::min(pw, ew);
                pb = std::min(pb, eb);
            }
            if (pw == INT_MAX || pb == INT_MAX) pw = pb = INVALID_SCORE;
            if (n->getPathErrorWhite() != pw || n->getPathErrorBlack() != pb)
                return "path errors (" + std::to_string(n->getPathErrorWhite()) + "," + std::to_string(n->getPathErrorBlack()) + ") but the defining equations give (" +
                       std::to_string(pw) + "," + std::to_string(pb) + ")" + where;
        }
    }
    return "";
}

std::string slurp(const std::string& path) {
    std::ifstream f(path, std::ios::binary);
    return std::string((std::istreambuf_iterator<char>(f)), std::istreambuf_iterator<char>());
}

vf::Result* g_res = nullptr;
void fatalC19(const char* kind, const std::string& detail) {
    g_res->violate("C19", std::string("sim-") + kind, detail);
    vf::emitResultAndExit(*g_res);
}

void runC19(const Scenario& sc, vf::Result& res) {
    g_res = &res;
    std::stringstream devnull;
    std::streambuf* oldOut = std::cout.rdbuf(devnull.rdbuf());
    const Costs K{(int)sc.knobInt("k_depth", 100), (int)sc.knobInt("k_own", 200), (int)sc.knobInt("k_other", 50)};
    std::string dir = vf::workDir();
    std::string backup = dir + "/c19_backup_" + std::to_string((long)getpid()) + ".bin";
    std::string saved = dir + "/c19_saved_" + std::to_string((long)getpid()) + ".bin";
    unlink(backup.c_str());
    std::unique_ptr<BookBuild::Book> book(new BookBuild::Book(backup, K.depthCost, K.own, K.other));
    Ref ref;
    std::set<U64> pending;
    Position start = TextIO::readFEN(TextIO::startPosFEN);
    BookBuildTest::addRoot(*book);
    ref[start.bookHash()].pos = start;
    // log of appended backup records: (file size after the append, hash) with the reference search data at that time
    struct Rec { size_t endOffset; U64 hash; Move bestMove; int score; int time; };
    std::vector<Rec> log;
    size_t lastSize = 0;
    size_t tailStart = 0; // offset after the last complete writeToFile image
    auto noteAppends = [&]() {
        std::string all = slurp(backup);
        while (lastSize + 16 <= all.size()) {
            BookNode::BookSerializeData bsd;
            memcpy(bsd.data, all.data() + lastSize, 16);
            BookNode tmp(0);
            tmp.deSerialize(bsd);
            lastSize += 16;
            log.push_back({lastSize, tmp.getHashKey(), tmp.getBestNonBookMove(), tmp.getSearchScore(), (int)tmp.getSearchTime()});
        }
    };
    noteAppends();
    int opNo = 0;
    for (const std::string& op : sc.ops) {
        std::vector<std::string> t = vf::splitWs(op);
        if (t.empty()) continue;
        opNo++;
        uint64_t a = t.size() > 1 ? strtoull(t[1].c_str(), nullptr, 10) : 0, b = t.size() > 2 ? strtoull(t[2].c_str(), nullptr, 10) : 0;
        long long c = t.size() > 3 ? atoll(t[3].c_str()) : 0;
        auto pickNode = [&](uint64_t x) -> U64 { auto it = ref.begin(); std::advance(it, (long)(x % ref.size())); return it->first; };
        if (t[0] == "add") {
            U64 h = pickNode(a);
            Position p = ref[h].pos;
            std::vector<Move> lm, fresh;
            uci::legalMoves(p, lm);
            UndoInfo ui;
            for (const Move& m : lm) { p.makeMove(m, ui); if (!ref.count(p.bookHash())) fresh.push_back(m); p.unMakeMove(m, ui); }
            if (fresh.empty()) continue;
            Move m = fresh[b % fresh.size()];
            std::vector<U64> ts;
            BookBuildTest::addPos(*book, p, m, ts);
            p.makeMove(m, ui);
            ref[p.bookHash()].pos = p;
            res.counters["op_add"]++;
            int np = 0;
            for (auto& pi : BookBuildTest::node(*book, p.bookHash())->getParents()) { (void)pi; np++; }
            if (np > 1) res.counters["probe_transposition_extra_parent"]++;
        } else if (t[0] == "line") {
            // a line of explicit moves from the root: every position that is not yet in the book is added. Lines over a
            // small commuting move vocabulary transpose into each other with different lengths, in any order of arrival.
            Position p = start;
            UndoInfo ui;
            for (size_t mi = 1; mi < t.size(); mi++) {
                std::vector<Move> lm;
                uci::legalMoves(p, lm);
                Move m;
                for (const Move& x : lm) if (TextIO::moveToUCIString(x) == t[mi]) m = x;
                if (m.isEmpty()) break;
                Position c2 = p;
                c2.makeMove(m, ui);
                if (!ref.count(c2.bookHash())) {
                    std::vector<U64> ts;
                    BookBuildTest::addPos(*book, p, m, ts);
                    ref[c2.bookHash()].pos = c2;
                    res.counters["op_line_add"]++;
                    int np = 0;
                    for (auto& pi : BookBuildTest::node(*book, c2.bookHash())->getParents()) { (void)pi; np++; }
                    if (np > 1) res.counters["probe_transposition_extra_parent"]++;
                }
                p = c2;
            }
        } else if (t[0] == "result") {
            U64 h = pickNode(a);
            RefNode& rn = ref[h];
            Position p = rn.pos;
            std::vector<Move> lm;
            uci::legalMoves(p, lm);
            if (pending.count(h)) { BookBuildTest::removePending(*book, h); pending.erase(h); }
            std::vector<Move> cand = BookBuildTest::movesToSearch(*book, p);
            Move best;
            int score;
            if (lm.empty()) { score = MoveGen::inCheck(p) ? -SearchConst::MATE0 : 0; res.counters["probe_result_game_over"]++; }
            else if (cand.empty()) { score = IGNORE_SCORE; res.counters["probe_result_ignore"]++; }
            else {
                best = cand[b % cand.size()];
                int kind = (int)(c % 10);
                if (kind < 7) score = (int)((c / 10) % 601) - 300;
                else if (kind == 7) { score = SearchConst::MATE0 - 2 - 2 * (int)((c / 10) % 20); res.counters["probe_result_mate"]++; }
                else if (kind == 8) { score = -(SearchConst::MATE0 - 3 - 2 * (int)((c / 10) % 20)); res.counters["probe_result_mate"]++; }
                else score = 0;
            }
            int time = 1 + (int)((c / 7) % 100000);
            BookBuildTest::node(*book, h)->setSearchResult(BookBuildTest::data(*book), best, score, time);
            BookBuildTest::writeBackup(*book, *BookBuildTest::node(*book, h));
            rn.bestMove = best; rn.score = score; rn.time = time;
            res.counters["op_result"]++;
        } else if (t[0] == "pending") {
            U64 h = pickNode(a);
            if (pending.count(h)) { BookBuildTest::removePending(*book, h); pending.erase(h); res.counters["op_remove_pending"]++; }
            else { BookBuildTest::addPending(*book, h); pending.insert(h); res.counters["op_add_pending"]++; }
        } else if (t[0] == "saveload") {
            book->writeToFile(saved);
            std::unique_ptr<BookBuild::Book> b2(new BookBuild::Book("", K.depthCost, K.own, K.other));
            b2->readFromFile(saved);
            std::string err = scan(*b2, ref, K, std::set<U64>(), true);
            if (!err.empty()) { res.violate("C19", "save-load-differs", "after writeToFile/readFromFile (op " + std::to_string(opNo) + "): " + err); break; }
            res.counters["op_saveload"]++;
            if (a % 2) { // continue working on the reloaded book
                for (U64 h : pending) BookBuildTest::addPending(*b2, h);
                book = std::move(b2);
                // the reloaded book has no backup file configured; the log check below uses what was appended so far
                res.counters["probe_continue_on_reloaded_book"]++;
                tailStart = (size_t)-1; // appended tail no longer maintained
            }
        } else if (t[0] == "crash" && tailStart != (size_t)-1) {
            noteAppends();
            std::string all = slurp(backup);
            if (all.size() <= tailStart) continue;
            size_t cut = tailStart + (size_t)(a % (all.size() - tailStart + 1));
            std::string cutFile = dir + "/c19_cut_" + std::to_string((long)getpid()) + ".bin";
            { std::ofstream f(cutFile, std::ios::binary | std::ios::trunc); f.write(all.data(), (std::streamsize)cut); }
            // reference = records fully contained in the surviving prefix, last writer wins
            Ref expect;
            for (const Rec& r : log) {
                if (r.endOffset > cut) break;
                auto it = ref.find(r.hash);
                if (it == ref.end()) { res.violate("C19", "backup-log-garbage", "backup log contains a record for an unknown position"); break; }
                RefNode& e = expect[r.hash];
                e.pos = it->second.pos;
                e.bestMove = r.bestMove; e.score = r.score; e.time = r.time;
            }
            if (res.verdict != "ok") break;
            std::unique_ptr<BookBuild::Book> b2(new BookBuild::Book("", K.depthCost, K.own, K.other));
            b2->readFromFile(cutFile);
            unlink(cutFile.c_str());
            res.counters["fault_crash_restart"]++;
            if (cut % 16) res.counters["fault_torn_last_record"]++;
            if (expect.empty()) continue;
            std::string err = scan(*b2, expect, K, std::set<U64>(), true);
            if (!err.empty()) { res.violate("C19", "crash-restart-differs", "book rebuilt from the backup log cut at byte " + std::to_string(cut) + " of " + std::to_string(all.size()) + ": " + err); break; }
        }
        noteAppends();
        std::string err = scan(*book, ref, K, pending, true);
        if (!err.empty()) {
            res.violate("C19", "fixed-point-violated", "after op " + std::to_string(opNo) + " '" + op + "': " + err);
            if (sc.knobInt("dump", 0)) {
                std::cout.rdbuf(oldOut);
                for (auto& kv : ref) {
                    BookNode* n = BookBuildTest::node(*book, kv.first);
                    fprintf(stderr, "%s depth %d ss %d best %s nm %d ecw %d ecb %d pw %d pb %d parents:", TextIO::toFEN(kv.second.pos).c_str(), n->getDepth(), n->getSearchScore(),
                            TextIO::moveToUCIString(n->getBestNonBookMove()).c_str(), n->getNegaMaxScore(), n->getExpansionCostWhite(), n->getExpansionCostBlack(), n->getPathErrorWhite(), n->getPathErrorBlack());
                    for (auto& pi : n->getParents()) fprintf(stderr, " %016llx", (unsigned long long)pi.parent->getHashKey());
                    fprintf(stderr, " self %016llx\n", (unsigned long long)kv.first);
                }
            }
            break;
        }
        res.counters["scans"]++;
    }
    res.counters["book_nodes"] = (long long)ref.size();
    unlink(backup.c_str());
    unlink(saved.c_str());
    std::cout.rdbuf(oldOut);
    res.info["casehash"] = vf::hex64(vf::fnv1a(sc.toText()));
    res.counters["nontrivial"] = ref.size() > 3;
}

void genC19(uint64_t seed, int tier, Scenario& sc) {
    Rng r(seed, 1);
    sc.cls = "C19";
    sc.seed = seed;
    if (r.chance(0.3)) { sc.set("k_depth", r.range(1, 300)); sc.set("k_own", r.range(1, 400)); sc.set("k_other", r.range(1, 100)); }
    int n = (int)r.logRange(3, tier > 0 ? 200 : 40);
    // tempo-losing lines: single vs double pawn steps and knights going out and back, so that the same position is
    // reached by lines of different length; a pawn move resets the half-move clock (part of the book hash)
    const bool tempoLines = r.chance(0.5);
    const bool tempoOnly = tempoLines && r.chance(0.5); // a dense web of transposing lines, long ones tending to come first
    const int nVocab = tempoOnly ? (r.chance(0.5) ? 8 : 12) : 20;
    if (tempoOnly) n = (int)r.range(10, tier > 0 ? 120 : 50);
    auto genLine = [&r, nVocab, tempoOnly, n](int i) {
        static const char* vocab[] = {"e2e3", "e3e4", "e2e4", "g1f3", "f3g1", "e7e6", "e6e5", "e7e5", "g8f6", "f6g8", "d2d4", "d7d5",
                                      "d2d3", "d3d4", "d7d6", "d6d5", "b1c3", "c3b1", "b8c6", "c6b8"};
        Position p = TextIO::readFEN(TextIO::startPosFEN);
        UndoInfo ui;
        std::string line = "line";
        int len = (int)r.range(1, 10);
        if (tempoOnly) len = i < n / 2 ? (int)r.range(6, 16) : (int)r.range(1, 8);
        for (int i = 0; i < len; i++) {
            std::vector<Move> lm, ok;
            uci::legalMoves(p, lm);
            for (const Move& m : lm) { std::string u = TextIO::moveToUCIString(m); for (int vi = 0; vi < nVocab; vi++) if (u == vocab[vi]) ok.push_back(m); }
            if (ok.empty()) break;
            Move m = ok[r.below(ok.size())];
            line += " " + TextIO::moveToUCIString(m);
            p.makeMove(m, ui);
        }
        return line;
    };
    for (int i = 0; i < n; i++) {
        int k = (int)r.below(100);
        if (tempoLines && r.chance(tempoOnly ? 0.85 : 0.4)) { sc.ops.push_back(genLine(i)); continue; }
        // low node indices are preferred so that lines get deep and transpositions appear
        uint64_t nodeSel = r.chance(0.5) ? r.next() : r.below(6);
        if (k < 45) sc.ops.push_back("add " + std::to_string(nodeSel) + " " + std::to_string(r.chance(0.6) ? r.below(4) : r.next() >> 1));
        else if (k < 80) sc.ops.push_back("result " + std::to_string(nodeSel) + " " + std::to_string(r.next() >> 1) + " " + std::to_string(r.next() >> 2));
        else if (k < 88) sc.ops.push_back("pending " + std::to_string(nodeSel));
        else if (k < 93) sc.ops.push_back("saveload " + std::to_string(r.below(10) == 0 ? 1 : 0));
        else sc.ops.push_back("crash " + std::to_string(r.next() >> 1));
    }
    sc.ops.push_back("crash " + std::to_string(r.next() >> 1));
}

vf::ClassRegistrar regC19({"C19", "C19", "unit", genC19, runC19});

} // namespace
