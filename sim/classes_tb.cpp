// C12: on-demand endgame tables hold the exact distance to mate; aborted generations leave nothing in use.
// Unit harness: TranspositionTable::updateTB / TBGenerator under vsim (virtual clock, abort injection at a chosen
// sim step), oracle = sim/dtm_oracle.cpp. The abort points of 3-man classes are enumerated completely.
#include "common.hpp"
#include "session.hpp"
#include "vsim.hpp"
#include "dtm_oracle.hpp"
#include "tb_adapter.hpp"
#include "transpositionTable.hpp"
#include "tbgen.hpp"
#include "textio.hpp"
#include "constants.hpp"
#include <memory>
#include <cstring>

using vf::Rng;
using vf::Scenario;

namespace tba {

bool menOf(const Position& pos, std::vector<dtm::Man>& men, std::vector<int>& sq) {
    men.clear();
    sq.clear();
    for (int s = 0; s < 64; s++) {
        int p = pos.getPiece(Square(s));
        char t = 0;
        bool w = true;
        switch (p) {
        case Piece::EMPTY: continue;
        case Piece::WKING: t = 'K'; break;
        case Piece::WQUEEN: t = 'Q'; break;
        case Piece::WROOK: t = 'R'; break;
        case Piece::WBISHOP: t = 'B'; break;
        case Piece::WKNIGHT: t = 'N'; break;
        case Piece::BKING: t = 'K'; w = false; break;
        case Piece::BQUEEN: t = 'Q'; w = false; break;
        case Piece::BROOK: t = 'R'; w = false; break;
        case Piece::BBISHOP: t = 'B'; w = false; break;
        case Piece::BKNIGHT: t = 'N'; w = false; break;
        default: return false; // pawn
        }
        men.push_back({t, w});
        sq.push_back(s);
    }
    return men.size() <= 4;
}

dtm::Value probe(const Position& pos) {
    std::vector<dtm::Man> men;
    std::vector<int> sq;
    dtm::Value v;
    v.kind = dtm::Value::NOT_COVERED;
    v.plies = 0;
    if (pos.getCastleMask() || !menOf(pos, men, sq)) return v;
    return dtm::probe(men, sq, pos.isWhiteMove());
}

int engineScore(const dtm::Value& v, int ply) {
    using namespace SearchConst;
    if (v.kind == dtm::Value::WIN) return MATE0 - ply - v.moves() * 2;
    if (v.kind == dtm::Value::LOSS) return -(MATE0 - ply - v.moves() * 2 - 1);
    return 0;
}

int pieceCode(char t, bool white) {
    switch (t) {
    case 'K': return white ? Piece::WKING : Piece::BKING;
    case 'Q': return white ? Piece::WQUEEN : Piece::BQUEEN;
    case 'R': return white ? Piece::WROOK : Piece::BROOK;
    case 'B': return white ? Piece::WBISHOP : Piece::BBISHOP;
    case 'N': return white ? Piece::WKNIGHT : Piece::BKNIGHT;
    }
    return Piece::EMPTY;
}

std::vector<dtm::Man> menOfKey(const std::string& key, bool flipColours) {
    std::vector<dtm::Man> men;
    size_t v = key.find('v');
    std::string w = key.substr(1, v - 1), b = key.substr(v + 2);
    men.push_back({'K', !flipColours});
    men.push_back({'K', flipColours});
    for (char c : w) men.push_back({c, !flipColours});
    for (char c : b) men.push_back({c, flipColours});
    return men;
}

} // namespace tba

namespace {

struct AbortActor : vsim::Actor {
    long atStep = -1;
    int kind = 0; // 0 = stop (limit := 0), 1 = time limit expires (clock pushed forward)
    RelaxedShared<S64>* maxT = nullptr;
    bool fired = false;
    bool ready() override { return !fired && atStep >= 0 && (long)vsim::stats().steps >= atStep; }
    long long deadline() override { return -1; }
    bool urgent() override { return true; }
    void step() override {
        fired = true;
        if (kind == 0) *maxT = 0;
        else vsim::advance(3600LL * 1000000000LL);
    }
};

PieceCount pieceCountOf(const std::vector<dtm::Man>& men) {
    PieceCount pc;
    memset(&pc, 0, sizeof pc);
    for (const dtm::Man& m : men) {
        switch (m.type) {
        case 'Q': (m.white ? pc.nwq : pc.nbq)++; break;
        case 'R': (m.white ? pc.nwr : pc.nbr)++; break;
        case 'B': (m.white ? pc.nwb : pc.nbb)++; break;
        case 'N': (m.white ? pc.nwn : pc.nbn)++; break;
        }
    }
    return pc;
}

/** Set up a position with the given men on the given squares (must be distinct). */
void place(Position& pos, const std::vector<dtm::Man>& men, const int* sq, bool wtm, const int* prevSq) {
    if (prevSq)
        for (size_t i = 0; i < men.size(); i++) pos.setPiece(Square(prevSq[i]), Piece::EMPTY);
    for (size_t i = 0; i < men.size(); i++) pos.setPiece(Square(sq[i]), tba::pieceCode(men[i].type, men[i].white));
    pos.setWhiteMove(wtm);
}

struct Sweep {
    long probes = 0, legal = 0, hits = 0, misses = 0, wrong = 0, wins = 0, losses = 0, draws = 0;
    std::string firstWrong;
};

/** Compare probeDTM answers with the oracle over all (stride 1) or sampled placements.
 *  requireHit: every legal placement must be answered (installed table); otherwise a miss is fine. */
template <class ProbeFn>
void sweep(const std::vector<dtm::Man>& men, ProbeFn probeFn, bool requireHit, long sampleEvery, Rng& r, Sweep& out) {
    const int n = (int)men.size();
    size_t N = 1;
    for (int i = 0; i < n; i++) N *= 64;
    Position pos;
    int prev[4];
    bool havePrev = false;
    for (size_t idx = 0; idx < N; idx++) {
        if (sampleEvery > 1 && r.below((uint64_t)sampleEvery) != 0) continue;
        int sq[4];
        size_t x = idx;
        bool distinct = true;
        for (int i = 0; i < n; i++) { sq[i] = (int)(x & 63); x >>= 6; }
        for (int i = 0; i < n && distinct; i++)
            for (int j = i + 1; j < n; j++) if (sq[i] == sq[j]) { distinct = false; break; }
        if (!distinct) continue;
        for (int wtm = 0; wtm < 2; wtm++) {
            std::vector<int> sqv(sq, sq + n);
            dtm::Value ov = dtm::probe(men, sqv, wtm != 0);
            if (ov.kind == dtm::Value::ILLEGAL_POS || ov.kind == dtm::Value::NOT_COVERED) continue;
            place(pos, men, sq, wtm != 0, havePrev ? prev : nullptr);
            memcpy(prev, sq, sizeof prev);
            havePrev = true;
            out.legal++;
            int score = 12345;
            bool hit = probeFn(pos, score);
            out.probes++;
            if (!hit) {
                out.misses++;
                if (requireHit) {
                    out.wrong++;
                    if (out.firstWrong.empty()) out.firstWrong = TextIO::toFEN(pos) + ": not found, oracle says " + std::to_string(tba::engineScore(ov, 0));
                }
                continue;
            }
            out.hits++;
            int want = tba::engineScore(ov, 0);
            if (ov.kind == dtm::Value::WIN) out.wins++;
            else if (ov.kind == dtm::Value::LOSS) out.losses++;
            else out.draws++;
            if (score != want) {
                out.wrong++;
                if (out.firstWrong.empty())
                    out.firstWrong = TextIO::toFEN(pos) + ": table says " + std::to_string(score) + ", oracle says " + std::to_string(want);
            }
        }
    }
}

void hashTraffic(TranspositionTable& tt, Rng& r, long n) {
    for (long i = 0; i < n; i++) {
        U64 key = r.next();
        if (r.chance(0.3)) key |= 0xFFFF000000000000ULL; // top of the index range: next to the table region
        Move m(Square((int)r.below(64)), Square((int)r.below(64)), Piece::EMPTY);
        m.setScore((int)r.range(-3000, 3000));
        tt.insert(key, m, (int)r.range(1, 3), (int)r.below(20), (int)r.below(30), (int)r.range(-500, 500));
        TranspositionTable::TTEntry e;
        tt.probe(r.chance(0.5) ? key : r.next(), e);
    }
}

vf::Result* g_res = nullptr;
void fatalC12(const char* kind, const std::string& detail) {
    g_res->violate("C12", std::string("sim-") + kind, detail);
    vf::emitResultAndExit(*g_res);
}

void runC12(const Scenario& sc, vf::Result& res) {
    g_res = &res;
    const std::string key = sc.knobStr("key", "KQvK");
    const bool flipC = sc.knobInt("flip", 0) != 0;
    const bool useTT = sc.knobInt("storage_tt", 1) != 0;
    const long abortStep = (long)sc.knobInt("abort_step", -1);
    const int abortKind = (int)sc.knobInt("abort_kind", 0);
    const long sampleEvery = (long)sc.knobInt("sample_every", 1);
    const long traffic = (long)sc.knobInt("traffic", 20000);
    const int hashMB = (int)sc.knobInt("hash_mb", 8);
    Rng r(sc.seed, 3);
    std::vector<dtm::Man> men = tba::menOfKey(key, flipC);
    // root position: a random legal placement of the class
    Position root;
    {
        Position p;
        for (int t = 0; t < 10000; t++) {
            int sq[4];
            std::vector<int> sqv;
            bool ok = true;
            for (size_t i = 0; i < men.size(); i++) { sq[i] = (int)r.below(64); for (size_t j = 0; j < i; j++) if (sq[j] == sq[i]) ok = false; sqv.push_back(sq[i]); }
            if (!ok) continue;
            bool wtm = r.chance(0.5);
            dtm::Value v = dtm::probe(men, sqv, wtm);
            if (v.kind == dtm::Value::ILLEGAL_POS || v.kind == dtm::Value::NOT_COVERED) continue;
            Position q;
            place(q, men, sq, wtm, nullptr);
            root = q;
            break;
        }
    }
    res.info["root"] = TextIO::toFEN(root);
    vsim::Config cfg;
    sess::configFromScenario(sc, cfg);
    cfg.timeRoleMask = 1u << vsim::R_ENGINE;
    vsim::onFatal = fatalC12;
    vsim::init(cfg);
    RelaxedShared<S64> maxT;
    maxT = sc.knobInt("time_limit_ms", -1);
    AbortActor actor;
    actor.atStep = -1; // armed right before the generation starts
    actor.kind = abortKind;
    actor.maxT = &maxT;
    vsim::addActor(&actor);

    if (!useTT) {
        VectorStorage vs;
        TBGenerator<VectorStorage> gen(vs, pieceCountOf(men));
        if (abortStep >= 0) actor.atStep = (long)vsim::stats().steps + abortStep;
        bool ok = gen.generate(maxT, false);
        res.counters["gen_steps"] = (long long)vsim::stats().steps;
        res.counters["fault_abort_fired"] = actor.fired;
        if (actor.fired && ok) res.counters["probe_abort_after_last_check"]++;
        if (!actor.fired && !ok) res.violate("C12", "generation-failed", "un-aborted generation of " + key + " (vector storage) reported failure");
        if (ok) {
            Sweep s;
            sweep(men, [&](const Position& p, int& sc2) { return gen.probeDTM(p, 0, sc2); }, true, sampleEvery, r, s);
            res.counters["placements_checked"] = s.legal;
            res.counters["wins"] = s.wins; res.counters["losses"] = s.losses; res.counters["draws"] = s.draws;
            if (s.wrong) res.violate("C12", "wrong-dtm-vector", std::to_string(s.wrong) + " wrong answers, first: " + s.firstWrong);
        }
        res.info["casehash"] = vf::hex64(vf::fnv1a(sc.toText()));
        res.counters["nontrivial"] = 1;
        return;
    }

    TranspositionTable tt((U64)hashMB * 65536);
    // optionally another class is already resident when the (possibly aborted) generation starts
    const std::string preKey = sc.knobStr("pre_key", "");
    std::vector<dtm::Man> preMen;
    if (!preKey.empty()) {
        preMen = tba::menOfKey(preKey, sc.knobInt("pre_flip", 0) != 0);
        Position pre;
        for (int t = 0; t < 10000; t++) {
            int sq[4];
            std::vector<int> sqv;
            bool ok = true;
            for (size_t i = 0; i < preMen.size(); i++) { sq[i] = (int)r.below(64); for (size_t j = 0; j < i; j++) if (sq[j] == sq[i]) ok = false; sqv.push_back(sq[i]); }
            if (!ok) continue;
            dtm::Value v = dtm::probe(preMen, sqv, true);
            if (v.kind == dtm::Value::ILLEGAL_POS || v.kind == dtm::Value::NOT_COVERED) continue;
            Position q;
            place(q, preMen, sq, true, nullptr);
            pre = q;
            break;
        }
        RelaxedShared<S64> noLimit;
        noLimit = -1;
        if (tt.updateTB(pre, noLimit)) res.counters["probe_other_table_resident_before"]++;
    }
    const long stepsBefore = (long)vsim::stats().steps;
    if (abortStep >= 0) actor.atStep = stepsBefore + abortStep; // abort points are counted from the start of the generation
    bool ok = tt.updateTB(root, maxT);
    res.counters["gen_steps"] = (long long)vsim::stats().steps - stepsBefore;
    res.counters["fault_abort_fired"] = actor.fired;
    res.counters["fault_abort_stop"] = actor.fired && abortKind == 0;
    res.counters["fault_abort_timeout"] = actor.fired && abortKind == 1;
    res.counters["generation_ok"] = ok;
    if (!actor.fired && !ok)
        res.violate("C12", "generation-failed", "un-aborted generation of " + key + " in the transposition table reported failure");
    auto ttProbe = [&](const Position& p, int& sc2) { return tt.probeDTM(p, 0, sc2); };
    if (ok) {
        if (actor.fired) res.counters["probe_abort_after_last_check"]++;
        Sweep s;
        sweep(men, ttProbe, true, sampleEvery, r, s);
        res.counters["placements_checked"] = s.legal;
        res.counters["wins"] = s.wins; res.counters["losses"] = s.losses; res.counters["draws"] = s.draws;
        if (s.wrong) res.violate("C12", "wrong-dtm-tt", std::to_string(s.wrong) + " wrong answers right after generation, first: " + s.firstWrong);
        // ordinary hash traffic must not disturb the resident table
        hashTraffic(tt, r, traffic);
        Sweep s2;
        sweep(men, ttProbe, true, std::max(sampleEvery, 7L), r, s2);
        if (s2.wrong) res.violate("C12", "table-damaged-by-hashing", std::to_string(s2.wrong) + " wrong answers after hash traffic, first: " + s2.firstWrong);
        // out-of-scope positions must be "not found"
        {
            Position p(root);
            p.setCastleMask(1 << Position::A1_CASTLE);
            int sc2;
            if (tt.probeDTM(p, 0, sc2)) res.violate("C12", "out-of-scope-answered", "position with castling rights answered: " + TextIO::toFEN(p));
            Position q(root);
            for (int s0 = 8; s0 < 56; s0++)
                if (q.getPiece(Square(s0)) == Piece::EMPTY) { q.setPiece(Square(s0), r.chance(0.5) ? Piece::WPAWN : Piece::BPAWN); break; }
            if (tt.probeDTM(q, 0, sc2)) res.violate("C12", "out-of-scope-answered", "position with a pawn answered: " + TextIO::toFEN(q));
        }
        if (!preMen.empty()) {
            Sweep sp;
            sweep(preMen, ttProbe, false, std::max(sampleEvery, 5L), r, sp);
            if (sp.wrong) res.violate("C12", "overwritten-table-in-use", "positions of the previously resident " + preKey + " table are answered wrongly after " + key + " was generated; first: " + sp.firstWrong);
        }
        // clear() drops the table: afterwards nothing may be answered from the zeroed memory
        tt.clear();
        {
            Sweep sc3;
            sweep(men, ttProbe, false, std::max(sampleEvery, 9L), r, sc3);
            res.counters["probe_clear_with_resident_table"]++;
            if (sc3.hits) res.violate("C12", "table-in-use-after-clear", "after TranspositionTable::clear() " + std::to_string(sc3.hits) + " probes are still answered (" +
                                      std::to_string(sc3.wrong) + " wrongly)" + (sc3.firstWrong.empty() ? "" : "; first: " + sc3.firstWrong));
            hashTraffic(tt, r, 2000);
            std::string d;
            (void)d;
        }
    } else {
        res.counters["probe_aborted_generation"]++;
        // an aborted generation must not be in use: nothing it answers may be wrong, now or after hash traffic
        Sweep s;
        sweep(men, ttProbe, false, std::max(sampleEvery, 3L), r, s);
        res.counters["answers_after_abort"] = s.hits;
        if (s.wrong) res.violate("C12", "partial-table-in-use", "after an aborted generation (updateTB returned false) the table answered " +
                                 std::to_string(s.hits) + " probes, " + std::to_string(s.wrong) + " of them wrongly; first: " + s.firstWrong);
        hashTraffic(tt, r, traffic);
        Sweep s2;
        sweep(men, ttProbe, false, std::max(sampleEvery, 3L), r, s2);
        if (s2.wrong) res.violate("C12", "partial-table-in-use", "after an aborted generation and hash traffic the table answered " +
                                  std::to_string(s2.hits) + " probes, " + std::to_string(s2.wrong) + " of them wrongly; first: " + s2.firstWrong);
        if (!preMen.empty()) {
            // the table that was resident before shares the memory the aborted generation wrote into
            Sweep sp;
            sweep(preMen, ttProbe, false, std::max(sampleEvery, 3L), r, sp);
            res.counters["answers_for_previous_table_after_abort"] = sp.hits;
            if (sp.wrong) res.violate("C12", "overwritten-table-in-use", "after an aborted generation the previously resident " + preKey + " table still answers " +
                                      std::to_string(sp.hits) + " probes, " + std::to_string(sp.wrong) + " of them wrongly; first: " + sp.firstWrong);
        }
        // a later request must regenerate an exact table or report unavailable
        actor.atStep = -1;
        maxT = -1;
        bool ok2 = tt.updateTB(root, maxT);
        res.counters["regenerated"] = ok2;
        if (ok2) {
            Sweep s3;
            sweep(men, ttProbe, true, std::max(sampleEvery, 2L), r, s3);
            if (s3.wrong) res.violate("C12", "wrong-dtm-after-regeneration", std::to_string(s3.wrong) + " wrong answers, first: " + s3.firstWrong);
        } else {
            Sweep s3;
            sweep(men, ttProbe, false, std::max(sampleEvery, 3L), r, s3);
            if (s3.wrong) res.violate("C12", "partial-table-in-use", "second updateTB reported unavailable but the table answers wrongly; first: " + s3.firstWrong);
        }
    }
    sess::addStatsToResult(res);
    res.info["casehash"] = vf::hex64(vf::fnv1a(sc.toText()));
    res.counters["nontrivial"] = 1;
}

// Enumeration: seed = index into (class, colour assignment, storage, abort step, abort kind).
void genC12(uint64_t seed, int tier, Scenario& sc) {
    sc.cls = "C12";
    sc.seed = seed;
    const char* vs = getenv("VERIF_SEED");
    uint64_t mix = vs ? strtoull(vs, nullptr, 10) : 1;
    Rng r(seed * 7919 + mix, 1);
    std::vector<std::string> k3 = dtm::allKeys(3), k4 = dtm::allKeys(4);
    const int stepsPer3 = 64;          // abort steps 0..63 cover every clock read of a 3-man generation (checked: gen_steps < 64)
    const uint64_t n3 = (uint64_t)k3.size() * 2 * (2 * stepsPer3 + 2); // per class+colour: aborts (2 kinds) + un-aborted tt + vector
    sc.set("strategy", vsim::ST_RTB);
    sc.set("clock_cost_ns", 1000);
    if (seed < n3) {
        uint64_t per = 2 * stepsPer3 + 2;
        uint64_t ci = seed / per, wi = seed % per;
        sc.setS("key", k3[ci / 2]);
        sc.set("flip", (long long)(ci % 2));
        sc.set("hash_mb", r.chance(0.5) ? 8 : (long long)r.range(8, 32));
        sc.set("traffic", r.logRange(1000, 200000));
        if (r.chance(0.5)) { sc.setS("pre_key", k3[r.below(k3.size())]); sc.set("pre_flip", r.chance(0.5) ? 1 : 0); }
        if (wi == 0) { sc.set("storage_tt", 1); }
        else if (wi == 1) { sc.set("storage_tt", 0); }
        else {
            sc.set("storage_tt", 1);
            sc.set("abort_step", (long long)((wi - 2) / 2));
            sc.set("abort_kind", (long long)((wi - 2) % 2));
            sc.set("time_limit_ms", (wi - 2) % 2 ? 100000 : (r.chance(0.5) ? -1 : 100000));
            sc.set("sample_every", 1);
        }
        return;
    }
    // 4-man classes: sampled
    uint64_t j = seed - n3;
    int nSel = tier > 0 ? (int)k4.size() : 2;
    static const char* quick4[] = {"KQvKR", "KRBvK", "KRRvK"}; // two different men each side, three on one side, two equal men
    std::string key = tier > 0 ? k4[j % k4.size()] : quick4[j % 3];
    (void)nSel;
    sc.setS("key", key);
    sc.set("flip", r.chance(0.5) ? 1 : 0);
    sc.set("hash_mb", r.chance(0.5) ? 8 : (long long)r.range(8, 64));
    sc.set("traffic", r.logRange(10000, 1000000));
    // a smaller table may already be resident (its reservation in the hash table must grow for the 4-man table)
    if (r.chance(0.5)) { sc.setS("pre_key", k3[r.below(k3.size())]); sc.set("pre_flip", r.chance(0.5) ? 1 : 0); }
    int mode = (int)r.below(10);
    if (mode == 0) { sc.set("storage_tt", 0); sc.set("sample_every", tier > 0 ? 1 : 5); }
    else if (mode < 3) { sc.set("storage_tt", 1); sc.set("sample_every", tier > 0 ? 1 : 5); }
    else {
        sc.set("storage_tt", 1);
        sc.set("abort_step", r.range(0, 230));
        int kind = (int)r.below(2);
        sc.set("abort_kind", kind);
        sc.set("time_limit_ms", kind ? 100000 : (r.chance(0.5) ? -1 : 100000));
        sc.set("sample_every", tier > 0 ? 3 : 11);
    }
}

vf::ClassRegistrar regC12({"C12", "C12", "unit", genC12, runC12});

} // namespace

// ==========================================================================================
// C13: with tablebase knowledge the engine reports exact results and keeps them (session runs).
#include "uci_oracle.hpp"
#include "posgen.hpp"
#include "gen_util.hpp"
#include "moveGen.hpp"

namespace sess { bool ttIndexViolation(std::string& detail); }

namespace {

bool parseScore(const std::string& line, int& depth, bool& mate, long long& score, bool& bound) {
    std::vector<std::string> t = vf::splitWs(line);
    if (t.size() < 6 || t[0] != "info" || t[1] != "depth" || t[3] != "score") return false;
    depth = atoi(t[2].c_str());
    mate = t[4] == "mate";
    score = atoll(t[5].c_str());
    bound = t.size() > 6 && (t[6] == "upperbound" || t[6] == "lowerbound");
    return true;
}

void checkTB(const sess::History& h, const uci::Model& m, vf::Result& res) {
    for (size_t k = 0; k < m.gos.size(); k++) {
        const uci::GoRec& g = m.gos[k];
        if (g.bestmoveLine < 0 || !g.posKnown) continue;
        dtm::Value rv = tba::probe(g.root);
        if (rv.kind == dtm::Value::NOT_COVERED || rv.kind == dtm::Value::ILLEGAL_POS) continue;
        const int hmc = g.root.getHalfMoveClock();
        const int men = BitBoard::bitCount(g.root.occupiedBB());
        std::string ctx = " [go #" + std::to_string(k) + " root " + TextIO::toFEN(g.root) + " oracle=" +
                          (rv.kind == dtm::Value::WIN ? "win in " + std::to_string(rv.moves()) : rv.kind == dtm::Value::LOSS ? "loss in " + std::to_string(rv.moves()) : "draw") + "]";
        // last exact score line of this search
        int lastDepth = -1;
        bool lastMate = false;
        long long lastScore = 0;
        std::string lastLine;
        bool tbHitsSeen = false;
        for (int i = g.firstOut; i < g.lastOut; i++) {
            if (h.out[i].seq < h.sent[g.sentIdx].seqSent) continue;
            int d;
            bool mt, bd;
            long long s;
            if (!parseScore(h.out[i].text, d, mt, s, bd)) continue;
            if (h.out[i].text.find(" tbhits ") != std::string::npos) tbHitsSeen = true;
            // every announced mate must be real (C04 wording), bounds included
            if (mt && s > 0 && !(rv.kind == dtm::Value::WIN && rv.moves() <= s))
                res.violate("C13", "false-mate-claim", "'" + h.out[i].text + "' claims a mate in " + std::to_string(s) + ctx);
            if (bd) continue;
            lastDepth = d; lastMate = mt; lastScore = s; lastLine = h.out[i].text;
        }
        if (!tbHitsSeen || lastDepth < 2) { res.counters["tb_search_without_table"]++; continue; } // table not built (aborted / stopped early)
        res.counters["tb_roots_checked"]++;
        const bool won = rv.kind == dtm::Value::WIN, lost = rv.kind == dtm::Value::LOSS;
        const bool completable = (won || lost) && hmc + rv.plies <= 100;
        if (rv.kind == dtm::Value::DRAW) {
            res.counters["probe_tb_draw_root"]++;
            if (lastMate) res.violate("C13", "mate-score-in-drawn-position", "'" + lastLine + "'" + ctx);
        } else if (completable) {
            res.counters[won ? "probe_tb_won_root" : "probe_tb_lost_root"]++;
            long long want = won ? rv.moves() : -rv.moves();
            // the search is settled when it was as deep as the reported mate needs (the engine's own criterion for ending the search)
            long long claimedPlies = lastMate ? (lastScore > 0 ? 2 * lastScore - 1 : -2 * lastScore) : 1000000;
            bool settled = lastMate && lastDepth >= claimedPlies;
            if (settled) {
                res.counters["tb_settled_results"]++;
                if (lastScore != want)
                    res.violate("C13", "inexact-distance", "final exact score '" + lastLine + "' but the exact result is mate " + std::to_string(want) + ctx);
            } else {
                res.counters["tb_unsettled_results"]++;
                // a win cannot be announced shorter than the exact distance; for a lost root an unsettled search
                // may not have found the longest defence (or the fastest attack) yet, so only the sign is judged
                if (lastMate && ((lastScore > 0) != won || (won && lastScore < rv.moves())))
                    res.violate("C13", "inexact-distance", "'" + lastLine + "' contradicts the exact result mate " + std::to_string(want) + ctx);
                if (!lastMate && lastDepth >= 2 * rv.moves() + 2)
                    res.violate("C13", "inexact-distance", "no mate score at depth " + std::to_string(lastDepth) + " ('" + lastLine + "') although the exact result is mate " + std::to_string(want) + ctx);
                continue; // the move of an unsettled search is not judged
            }
        } else {
            res.counters["probe_tb_50move_blocked"]++;
            if (lastMate && men == 3)
                res.violate("C13", "mate-beyond-50-move-limit", "'" + lastLine + "' although the mate cannot be completed before the 50-move limit (hmc " + std::to_string(hmc) + ")" + ctx);
            if (lastMate && std::llabs(lastScore) < rv.moves())
                res.violate("C13", "inexact-distance", "'" + lastLine + "' is shorter than the exact distance" + ctx);
        }
        // the move played
        std::vector<std::string> bt = vf::splitWs(h.out[g.bestmoveLine].text);
        Move bm;
        if (bt.size() < 2 || !uci::parseUciMove(bt[1], bm) || !uci::containsMove(g.legal, bm)) continue;
        Position p(g.root);
        UndoInfo ui;
        p.makeMove(bm, ui);
        dtm::Value cv = tba::probe(p);
        if (cv.kind == dtm::Value::NOT_COVERED || cv.kind == dtm::Value::ILLEGAL_POS) continue;
        if (rv.kind == dtm::Value::DRAW && cv.kind == dtm::Value::WIN)
            res.violate("C13", "draw-turned-into-loss", "bestmove " + bt[1] + " loses (opponent mates in " + std::to_string(cv.moves()) + ")" + ctx);
        if (won && completable) {
            if (!(cv.kind == dtm::Value::LOSS && cv.plies == rv.plies - 1))
                res.violate("C13", "not-shortest-mate", "bestmove " + bt[1] + " leads to " +
                            (cv.kind == dtm::Value::LOSS ? "mate in " + std::to_string(cv.moves()) + " more moves (" + std::to_string(cv.plies) + " plies, expected " + std::to_string(rv.plies - 1) + ")" : std::string("a non-won position")) + ctx);
            else
                res.counters["bestmoves_on_shortest_mate"]++;
        }
    }
}

void runC13(const Scenario& sc, vf::Result& res) {
    sess::History h;
    harness_session_run(&sc, &h, &res);
    uci::Model m;
    uci::buildModel(h, m);
    uci::checkContract(h, m, res);
    uci::checkResults(h, m, res);
    checkTB(h, m, res);
    std::string d;
    if (sess::ttIndexViolation(d)) res.violate("C08", "tt-index-out-of-range", d);
    res.counters["gos"] = (long long)m.gos.size();
}

std::string placementFen(Rng& r, const std::string& key, int hmc) {
    bool flip = r.chance(0.5);
    std::vector<dtm::Man> men = tba::menOfKey(key, flip);
    for (int t = 0; t < 100000; t++) {
        int sq[4];
        std::vector<int> sqv;
        bool ok = true;
        for (size_t i = 0; i < men.size(); i++) { sq[i] = (int)r.below(64); for (size_t j = 0; j < i; j++) if (sq[j] == sq[i]) ok = false; sqv.push_back(sq[i]); }
        if (!ok) continue;
        bool wtm = r.chance(0.5);
        dtm::Value v = dtm::probe(men, sqv, wtm);
        if (v.kind == dtm::Value::ILLEGAL_POS || v.kind == dtm::Value::NOT_COVERED) continue;
        if (v.kind == dtm::Value::DRAW && r.chance(0.6)) continue; // prefer decisive positions
        Position q;
        place(q, men, sq, wtm, nullptr);
        q.setHalfMoveClock(hmc);
        q.setFullMoveCounter(1 + hmc / 2 + (int)r.below(30));
        return TextIO::toFEN(q);
    }
    return "8/8/8/8/8/2K5/7Q/6k1 b - - 0 1";
}

void genC13(uint64_t seed, int tier, Scenario& sc) {
    Rng r(seed, 1), rk(seed, 2);
    sc.cls = "C13";
    sc.seed = seed;
    sess::genSimKnobs(rk, sc, rk.chance(0.3));
    sc.set("node_cost_ns", gu::pickNodeCost(rk));
    sc.set("clock_cost_ns", rk.logRange(100, 3000));
    sc.setS("net", rk.chance(0.5) ? "material" : "random");
    std::vector<std::string> k3 = dtm::allKeys(3), k4 = dtm::allKeys(4);
    bool four = tier > 0 ? r.chance(0.5) : r.chance(0.04);
    std::string key = four ? (tier > 0 ? k4[r.below(k4.size())] : (r.chance(0.5) ? "KQvKR" : "KRBvK")) : k3[r.below(2)]; // KQvK, KRvK (KBvK/KNvK are all draws)
    if (!four && r.chance(0.15)) key = k3[2 + r.below(2)];
    sc.setS("tb_key", key);
    gu::pushSend(sc, "setoption name Hash value " + std::to_string(r.chance(0.4) ? 8 : r.range(8, 64)));
    const int nThreads = r.chance(0.5) ? 1 : (int)r.range(2, 4);
    gu::pushSend(sc, "setoption name Threads value " + std::to_string(nThreads));
    // every tablebase probe of the engine thread is two sim points (it times itself), helpers do not probe: keep
    // helper slices minimal and the tick budget of multi-threaded runs small, otherwise the helpers of a drawn
    // (never ending) search burn tens of millions of nodes
    if (nThreads > 1) sc.set("helper_tick_yield", 1);
    const long waitTicks = nThreads > 1 ? 5000 : 40000;
    if (r.chance(tier > 0 ? 0.15 : 0.08)) {
        // growth script: a small table is resident, a larger one replaces it, ordinary hashing follows, then the large
        // class is analysed again (its table must have survived the hash traffic)
        const std::string big = r.chance(0.5) ? "KQvKR" : "KRBvK";
        sc.setS("tb_key", big);
        std::vector<std::string> seq = {k3[r.below(2)], big};
        for (const std::string& k2 : seq) {
            gu::pushSend(sc, "position fen " + placementFen(r, k2, 0));
            gu::pushSend(sc, "go infinite");
            sc.ops.push_back("wait_ticks " + std::to_string(waitTicks));
            gu::pushSend(sc, "stop");
            sc.ops.push_back("wait_bestmove");
        }
        {
            // (a time-limited search consults updateTB for its root, a node-limited one does not)
            pg::GenPos gp;
            pg::randomGame(r, (int)r.range(4, 30), false, gp);
            gu::pushSend(sc, gp.positionCmd);
            long long nodes = r.logRange(20000, 150000);
            if (r.chance(0.5)) gu::pushSend(sc, "go nodes " + std::to_string(nodes));
            else gu::pushSend(sc, "go movetime " + std::to_string(std::max(1LL, nodes * sc.knobInt("node_cost_ns", 1000) / 1000000)));
            sc.ops.push_back("wait_bestmove");
        }
        for (int i = 0, n = (int)r.range(1, 3); i < n; i++) {
            gu::pushSend(sc, "position fen " + placementFen(r, big, 0));
            gu::pushSend(sc, "go infinite");
            sc.ops.push_back("wait_ticks " + std::to_string(waitTicks));
            gu::pushSend(sc, "stop");
            sc.ops.push_back("wait_bestmove");
        }
        gu::pushSend(sc, "quit");
        return;
    }
    int nSearch = (int)r.range(1, 4);
    for (int i = 0; i < nSearch; i++) {
        int hmc = r.chance(0.5) ? 0 : (int)r.range(0, 99);
        // mostly the same material class; sometimes another one, so that a resident table is replaced (or its
        // replacement is aborted by an early stop) and the first class comes back later
        std::string k2 = key;
        if (r.chance(0.3)) k2 = r.chance(0.8) ? k3[r.below(2)] : (r.chance(0.5) ? "KQvKR" : "KRBvK");
        gu::pushSend(sc, "position fen " + placementFen(r, k2, hmc));
        gu::pushSend(sc, "go infinite");
        if (r.chance(0.15)) sc.ops.push_back("wait_steps " + std::to_string(r.logRange(1, 200))); // may land inside the generation
        else sc.ops.push_back("wait_ticks " + std::to_string(r.chance(0.2) ? r.logRange(10, 3000) : waitTicks)); // normally until the search has ended by itself (deep enough for the mate)
        gu::pushSend(sc, "stop");
        sc.ops.push_back("wait_bestmove");
        if (r.chance(0.25)) gu::pushSend(sc, r.chance(0.5) ? "setoption name Clear Hash" : "ucinewgame"); // the table must be dropped and rebuilt, not reused
        if (r.chance(0.2)) {
            pg::GenPos gp;
            pg::randomGame(r, (int)r.range(0, 30), false, gp);
            gu::pushSend(sc, gp.positionCmd);
            long long nodes = r.logRange(100, 3000);
            if (r.chance(0.5)) gu::pushSend(sc, "go nodes " + std::to_string(nodes));
            else gu::pushSend(sc, "go movetime " + std::to_string(std::max(1LL, nodes * sc.knobInt("node_cost_ns", 1000) / 1000000)));
            sc.ops.push_back("wait_bestmove");
        }
    }
    gu::pushSend(sc, "quit");
}

vf::ClassRegistrar regC13({"C13", "C13", "session", genC13, runC13});

} // namespace
