// C06: time limits are honoured. Session runs under the virtual clock; oracle over limit hook events,
// engine-thread node ticks and output time stamps (DESIGN.md section 5, C06).
#include "common.hpp"
#include "session.hpp"
#include "uci_oracle.hpp"
#include "posgen.hpp"
#include "gen_util.hpp"
#include "textio.hpp"
#include <algorithm>
#include <climits>

namespace sess { bool ttIndexViolation(std::string& detail); }
using vf::Rng;
using vf::Scenario;
using namespace gu;

namespace {

long long effectiveMaxNPS(const uci::GoRec& g) {
    long long nps1 = g.maxNPS == 0 ? INT_MAX : g.maxNPS;
    long long nps2 = nps1;
    if (g.limitStrength) {
        if (g.elo < 1350) nps2 = 10000;
        else if (g.elo < 2100) nps2 = 100000;
        else nps2 = 750000;
    }
    long long nps = std::min(nps1, nps2);
    return nps == INT_MAX ? 0 : nps;
}

long pollInterval(const uci::GoRec& g) {
    long long nps = effectiveMaxNPS(g);
    long n = 1000;
    if (nps > 0) n = (long)std::max(1LL, std::min<long long>(nps / 100, n));
    return n;
}

/** Budget B in ms for a timed go, or -1 if the go has no time control. */
long long budgetOf(const uci::GoRec& g) {
    if (g.infiniteKw) return -1;
    if (g.movetime > 0) return g.movetime;
    if (g.wtime != 0 || g.btime != 0) {
        long long time = g.root.isWhiteMove() ? g.wtime : g.btime;
        long long margin = std::min(g.bufferTime, time * 9 / 10);
        return time - margin;
    }
    return -1;
}

long workTicksAfter(const sess::History& h, long long tNs, long upToTicks) {
    const std::vector<long long>& v = h.workTickTimes;
    long idx = (long)(std::lower_bound(v.begin(), v.end(), tNs) - v.begin());
    return std::max(0L, upToTicks - idx);
}

long ticksAfter(const sess::History& h, long long tNs, long upToTicks) {
    // number of engine main-search ticks whose completion time is >= tNs and that happened before tick count upToTicks
    const std::vector<long long>& v = h.mainTickTimes;
    long idx = (long)(std::lower_bound(v.begin(), v.end(), tNs) - v.begin());
    return std::max(0L, upToTicks - idx);
}

void checkTime(const sess::History& h, const uci::Model& m, const Scenario& sc, vf::Result& res) {
    if (getenv("VERIF_TRACE_LIMITS"))
        for (const sess::LimitEv& e : h.limits)
            fprintf(stderr, "limit seq %llu t %lld us min %lld max %lld early %d start %lld tid %d mainTicks %ld\n", (unsigned long long)e.seq, e.t / 1000, e.minT, e.maxT, e.early, e.start, e.tid, e.mainTicks);
    const long long clockCost = sc.knobInt("clock_cost_ns", 1000);
    const long long slackNs = 400 * clockCost + 2000000 + sc.knobInt("late_max_ns", 0); // clock reads between wake-up and the bestmove line, ms rounding, late timers
    const long long injected = res.counters["fault_clock_jump_ns"];
    for (size_t k = 0; k < m.gos.size(); k++) {
        const uci::GoRec& g = m.gos[k];
        if (g.bestmoveLine < 0) continue;
        const sess::SentLine& gs = h.sent[g.sentIdx];
        const sess::OutLine& bm = h.out[g.bestmoveLine];
        if (gs.seqRead == 0) continue;
        const long long B = budgetOf(g);
        const long N = pollInterval(g);
        const long WN = 2; // polling intervals of the tablebase generator: the one in progress plus the one that notices
        std::string ctx = " [go #" + std::to_string(k) + " '" + gs.text + "' stm=" + (g.root.isWhiteMove() ? "w" : "b") +
                          " BufferTime=" + std::to_string(g.bufferTime) + " poll=" + std::to_string(N) + "]";
        // limit events between the reading of this go and its bestmove
        const sess::LimitEv* startEv = nullptr;
        std::vector<const sess::LimitEv*> later;
        for (const sess::LimitEv& e : h.limits) {
            if (e.seq < gs.seqRead || e.seq > bm.seq) continue;
            if (e.start != -1 && !startEv) startEv = &e;
            else if (startEv) later.push_back(&e);
        }
        if (!startEv) continue; // e.g. position unknown / engine object missing
        res.counters["timed_go_seen"] += (B > 0);
        // ---- (1) limit invariants
        auto checkPair = [&](const sess::LimitEv& e, const char* what) {
            if (B <= 0) return;
            res.counters["limit_pairs_checked"]++;
            if (!(1 <= e.minT && e.minT <= e.maxT && e.maxT <= B))
                res.violate("C06", "limit-invariant", std::string(what) + ": soft=" + std::to_string(e.minT) + " hard=" + std::to_string(e.maxT) +
                            " budget=" + std::to_string(B) + " violates 1 <= soft <= hard <= budget" + ctx);
        };
        if (!g.ponderKw && B > 0) checkPair(*startEv, "limits handed to the search");
        if (g.ponderKw && (startEv->minT != -1 || startEv->maxT != -1))
            res.violate("C06", "ponder-limits", "a ponder search was started with time limits" + ctx);
        // ---- (2) deadline for plain timed searches
        if (!g.ponderKw && B > 0 && g.posKnown) {
            long long Dns = (startEv->start + B) * 1000000LL + injected;
            long after = ticksAfter(h, Dns, bm.mainTicks);
            res.counters["deadline_checked"]++;
            long long over = bm.t - Dns;
            if (over > res.counters["max_overshoot_us"] * 1000) res.counters["max_overshoot_us"] = over / 1000;
            if (after > res.counters["max_ticks_after_deadline"]) res.counters["max_ticks_after_deadline"] = after;
            if (after > N + 2)
                res.violate("C06", "deadline-overrun", std::to_string(after) + " main-search nodes after the budget of " + std::to_string(B) +
                            " ms was used up (allowed: one polling interval = " + std::to_string(N) + "), bestmove " +
                            std::to_string((bm.t - startEv->start * 1000000LL) / 1000000) + " ms after the go" + ctx);
            long wafter = workTicksAfter(h, Dns, bm.workTicks);
            if (wafter > res.counters["max_work_ticks_after_deadline"]) res.counters["max_work_ticks_after_deadline"] = wafter;
            if (wafter > WN)
                res.violate("C06", "deadline-overrun", std::to_string(wafter) + " polling intervals of the on-demand tablebase generation after the budget of " +
                            std::to_string(B) + " ms was used up (allowed " + std::to_string(WN) + "), bestmove " +
                            std::to_string((bm.t - startEv->start * 1000000LL) / 1000000) + " ms after the go" + ctx);
            if (g.legal.size() == 1) res.counters["probe_single_move_timed"]++;
        }
        // ---- (3) stop / ponderhit
        for (const sess::LimitEv* e : later) {
            bool isStop = e->minT == 0 && e->maxT == 0;
            long nodesAfter = bm.mainTicks - e->mainTicks;
            bool engineIdle = bm.allTicks == e->allTicks; // no node at all was searched after the event
            long workAfter = bm.workTicks - e->workTicks; // tablebase generator polling intervals after the event
            if (workAfter > 0) res.counters["probe_event_inside_tb_generation"]++;
            long long dt = bm.t - e->t;
            if (isStop) {
                res.counters["stop_checked"]++;
                if (engineIdle) {
                    // no node was searched after the stop: the engine thread was before its first node (e.g. inside the
                    // on-demand tablebase generation, whose polling interval is one clock read) or waiting to be released
                    long cr = bm.engClockReads - e->engClockReads;
                    if (cr > res.counters["max_engine_clock_reads_after_stop_without_nodes"]) res.counters["max_engine_clock_reads_after_stop_without_nodes"] = cr;
                    if (startEv->allTicks == e->allTicks) res.counters["probe_stop_before_first_node"]++;
                }
                if (workAfter > res.counters["max_work_ticks_after_stop"]) res.counters["max_work_ticks_after_stop"] = workAfter;
                if (workAfter > WN)
                    res.violate("C06", "stop-latency", std::to_string(workAfter) + " polling intervals of the on-demand tablebase generation between stop and bestmove (allowed " +
                                std::to_string(WN) + ")" + ctx);
                else if (nodesAfter > N + 2)
                    res.violate("C06", "stop-latency", std::to_string(nodesAfter) + " main-search nodes between stop and bestmove (allowed " + std::to_string(N) + ")" + ctx);
                else if (engineIdle && dt > 10000000LL + slackNs + injected && (g.ponderKw || g.modelInfinite) && effectiveMaxNPS(g) == 0) {
                    // engine was not searching: it sits in the 10 ms ponder/infinite wait loop
                    res.violate("C06", "stop-latency", "bestmove " + std::to_string(dt / 1000) + " us after stop although the search had already ended (allowed 10 ms)" + ctx);
                }
                break; // the first stop decides
            } else {
                // ponderhit: real limits installed
                res.counters["ponderhit_checked"]++;
                checkPair(*e, "limits installed by ponderhit");
                if (B > 0) {
                    long long elapsed = e->t - startEv->start * 1000000LL;
                    bool exhausted = elapsed >= e->maxT * 1000000LL;
                    if (exhausted) {
                        res.counters["probe_ponderhit_limits_exhausted"]++;
                        if (workAfter > res.counters["max_work_ticks_after_exhausted_ponderhit"]) res.counters["max_work_ticks_after_exhausted_ponderhit"] = workAfter;
                        if (workAfter > WN)
                            res.violate("C06", "ponderhit-latency", std::to_string(workAfter) + " polling intervals of the on-demand tablebase generation after ponderhit with exhausted limits (allowed " +
                                        std::to_string(WN) + ")" + ctx);
                        else if (nodesAfter > N + 2)
                            res.violate("C06", "ponderhit-latency", std::to_string(nodesAfter) + " main-search nodes after ponderhit with exhausted limits" + ctx);
                        else if (engineIdle && dt > 10000000LL + slackNs + injected && effectiveMaxNPS(g) == 0)
                            res.violate("C06", "ponderhit-latency", "bestmove " + std::to_string(dt / 1000) + " us after ponderhit although limits were exhausted and the search idle" + ctx);
                    }
                    long long Dns = e->t + B * 1000000LL + injected;
                    long after = ticksAfter(h, Dns, bm.mainTicks);
                    long wafter = workTicksAfter(h, Dns, bm.workTicks);
                    if (after > N + 2)
                        res.violate("C06", "deadline-overrun", std::to_string(after) + " main-search nodes after ponderhit + budget" + ctx);
                    else if (wafter > WN)
                        res.violate("C06", "deadline-overrun", std::to_string(wafter) + " polling intervals of the on-demand tablebase generation after ponderhit + budget" + ctx);
                }
            }
        }
    }
}

void runC06(const Scenario& sc, vf::Result& res) {
    sess::History h;
    harness_session_run(&sc, &h, &res);
    res.counters["fault_clock_jump_ns"] = vsim::stats().jumpedNs;
    uci::Model m;
    uci::buildModel(h, m);
    uci::checkContract(h, m, res);
    uci::checkResults(h, m, res);
    checkTime(h, m, sc, res);
    std::string d;
    if (sess::ttIndexViolation(d)) res.violate("C08", "tt-index-out-of-range", d);
    res.counters["gos"] = (long long)m.gos.size();
    res.counters["engine_sleeps"] = (long long)h.engineSleeps.size();
}

void genC06(uint64_t seed, int tier, Scenario& sc) {
    Rng r(seed, 1), rk(seed, 2);
    sc.cls = "C06";
    sc.seed = seed;
    sess::genSimKnobs(rk, sc, false); // no scheduling/clock faults in this class
    long long cost = pickNodeCost(rk);
    sc.set("node_cost_ns", cost);
    sc.setS("net", rk.chance(0.7) ? "material" : "random");
    const long maxNodes = tier > 0 ? 60000 : 25000;
    const long long maxTimeMs = std::max(1LL, std::min(10000000LL, maxNodes * cost / 1000000));
    pg::GenPos gp;
    if (r.chance(0.5)) pushSend(sc, std::string("setoption name Ponder value ") + (r.chance(0.5) ? "true" : "false"));
    if (r.chance(0.6)) pushSend(sc, "setoption name BufferTime value " + std::to_string(r.chance(0.3) ? r.range(1, 10) : r.logRange(1, 10000)));
    if (r.chance(0.5)) pushSend(sc, "setoption name Threads value " + std::to_string(r.range(1, 4)));
    if (r.chance(0.2)) pushSend(sc, "setoption name MaxNPS value " + std::to_string(r.logRange(1, 2000000)));
    if (r.chance(0.1)) { pushSend(sc, "setoption name UCI_LimitStrength value true"); pushSend(sc, "setoption name UCI_Elo value " + std::to_string(r.range(-625, 2900))); }
    if (r.chance(0.1)) pushSend(sc, "setoption name Strength value " + std::to_string(r.range(0, 1000)));
    int nGo = (int)r.range(1, 3);
    for (int i = 0; i < nGo; i++) {
        int pk = (int)r.below(10);
        bool tbRoot = false;
        if (pk < 2) { if (!pg::sparseWithMoveCount(r, 1, gp)) pg::anyPosition(r, gp); }
        else if (pk < 4) { tbRoot = pg::sparse(r, r.chance(0.8) ? 3 : 4, true, 0, gp); if (!tbRoot) pg::anyPosition(r, gp); } // on-demand tablebase roots
        else pg::anyPosition(r, gp);
        pushSend(sc, gp.positionCmd);
        bool w = gp.pos.isWhiteMove();
        std::string go = "go";
        bool ponder = r.chance(0.25);
        if (ponder) go += " ponder";
        long long B;
        if (r.chance(0.35)) {
            long long mt = r.logRange(1, std::min(100000LL, maxTimeMs));
            go += " movetime " + std::to_string(mt);
            B = mt;
        } else {
            long long mine = r.logRange(1, maxTimeMs), other = r.logRange(1, std::max(1LL, maxTimeMs));
            if (r.chance(0.1)) other = 1;
            go += " wtime " + std::to_string(w ? mine : other) + " btime " + std::to_string(w ? other : mine);
            if (r.chance(0.6)) {
                long long inc = r.chance(0.15) ? std::min(100000LL, mine * 3) : r.logRange(1, 100001) - 1;
                go += " winc " + std::to_string(w ? inc : r.range(0, 100000)) + " binc " + std::to_string(w ? r.range(0, 100000) : inc);
            }
            if (r.chance(0.6)) go += " movestogo " + std::to_string(r.chance(0.3) ? r.range(0, 2) : r.range(0, 100));
            B = mine;
        }
        if (tbRoot && r.chance(0.7)) {
            // a search without depth/node limit on a <=4-man pawnless root builds the table first; stop lands inside it
            int kind = (int)r.below(3);
            long long clk = r.logRange(1, kind == 2 ? maxTimeMs : 600000); // after ponderhit the clock is really used
            go = kind == 0 ? "go infinite" : "go ponder wtime " + std::to_string(clk) + " btime " + std::to_string(clk);
            pushSend(sc, go);
            // the release lands inside the table generation or in the (unlimited) search that follows it: the wait is
            // bounded by the generation time of this run's cost knobs plus the node budget of the class
            long long genUs = (2 * sc.knobInt("work_cost01_ns", 60) + 70 * sc.knobInt("work_cost2_ns", 6)) * 5243LL; // 5.2 M positions, in us
            if (gp.men <= 3) genUs /= 64;
            if (r.chance(0.5)) sc.ops.push_back("wait_steps " + std::to_string(r.logRange(1, 400)));
            else sc.ops.push_back("wait_us " + std::to_string(r.logRange(1, std::max(2LL, genUs + maxNodes * std::max(1LL, cost / 1000)))));
            pushSend(sc, kind == 2 ? "ponderhit" : "stop");
            sc.ops.push_back("wait_bestmove");
            continue;
        }
        pushSend(sc, go);
        long long cms = std::max(1LL, cost / 1000); // node cost in us
        if (ponder) {
            // release at a chosen virtual time, either before or after the limits are exhausted
            long long us = r.logRange(1, std::max(2LL, B * 1000 * 2));
            if (r.chance(0.3)) sc.ops.push_back("wait_ticks " + std::to_string(r.logRange(1, 3000)));
            else sc.ops.push_back("wait_us " + std::to_string(std::min(us, maxNodes * cms)));
            pushSend(sc, r.chance(0.7) ? "ponderhit" : "stop");
        } else if (r.chance(0.25)) {
            long long us = r.logRange(1, std::max(2LL, B * 1000));
            if (r.chance(0.3)) sc.ops.push_back("wait_ticks " + std::to_string(r.logRange(1, 3000)));
            else sc.ops.push_back("wait_us " + std::to_string(std::min(us, maxNodes * cms)));
            pushSend(sc, "stop");
        }
        sc.ops.push_back("wait_bestmove");
    }
    pushSend(sc, "quit");
}

// C06J: the same workload with clock faults (forward jumps at random sim steps, late timers, stalled threads).
// The injected jump is recorded and added to every allowance (section 3.3(3)); kept separate from the
// fault-free class so that the relaxation hides no ordinary bug.
void genC06J(uint64_t seed, int tier, Scenario& sc) {
    genC06(seed, tier, sc);
    sc.cls = "C06J";
    Rng rf(seed, 6);
    int nj = (int)rf.range(1, 3);
    for (int i = 0; i < nj; i++)
        sc.faults.push_back("jump " + std::to_string(rf.logRange(10, 20000)) + " " + std::to_string(rf.logRange(1000, 2000000000LL)));
    if (rf.chance(0.5)) { sc.setD("late_p", 0.3); sc.set("late_max_ns", rf.logRange(1000, 20000000)); }
    if (rf.chance(0.5)) sc.faults.push_back("freeze " + std::to_string(rf.logRange(10, 20000)) + " " + std::to_string(rf.below(4)) + " " + std::to_string(rf.logRange(10, 3000)));
    if (rf.chance(0.3)) sc.setD("spurious_p", 0.01);
}

vf::ClassRegistrar regC06({"C06", "C06", "session", genC06, runC06});
vf::ClassRegistrar regC06J({"C06J", "C06", "session", genC06J, runC06});

} // namespace
