// texelsim: deterministic simulation runner. One run == one forked child of a pristine parent image.
#include "common.hpp"
#include "computerPlayer.hpp"
#include "dtm_oracle.hpp"
#include "session.hpp"
#include "evaluate.hpp"
#include "textio.hpp"
#include "posgen.hpp"
#include <sys/personality.h>
#include <sys/wait.h>
#include <sys/stat.h>
#include <sys/resource.h>
#include <fcntl.h>
#include <malloc.h>
#include <unistd.h>
#include <signal.h>
#include <cstring>
#include <chrono>
#include <fstream>

using namespace vf;

// LSan floods at _exit otherwise; sanitizer failures must be classifiable by exit code.
extern "C" __attribute__((used)) const char* __asan_default_options() {
    return "exitcode=77:detect_leaks=0:abort_on_error=0:allocator_may_return_null=1:detect_stack_use_after_return=0";
}
extern "C" __attribute__((used)) const char* __ubsan_default_options() {
    return "halt_on_error=1:exitcode=78:print_stacktrace=1";
}
extern "C" __attribute__((used)) const char* __tsan_default_options() {
    return "exitcode=66:halt_on_error=1:report_signal_unsafe=0:second_deadlock_stack=1:report_thread_leaks=0";
}

// The harness' own bookkeeping (event log, GUI, stream buffers) is serialised by the baton, which TSan cannot see;
// libc interceptors (memcpy, operator new) would report it. Only frames of harness namespaces are suppressed,
// never anything in the repository's code.
extern "C" __attribute__((used)) const char* __tsan_default_suppressions() {
    return "race:sess::\nrace:vsim::\nrace:vf::\nrace:uci::\nrace:pg::\nrace:gu::\nrace:dtm::\nrace:tba::\nrace:verif_\n";
}

static int g_wallLimit = 120;

static std::string readAll(int fd) {
    std::string s;
    char buf[65536];
    for (;;) {
        ssize_t n = read(fd, buf, sizeof buf);
        if (n <= 0) break;
        s.append(buf, (size_t)n);
    }
    return s;
}

static std::string tailOfFile(const std::string& path, size_t maxBytes) {
    std::ifstream f(path, std::ios::binary);
    if (!f) return "";
    std::string s((std::istreambuf_iterator<char>(f)), std::istreambuf_iterator<char>());
    if (s.size() > maxBytes) s = s.substr(0, maxBytes / 2) + "\n...\n" + s.substr(s.size() - maxBytes / 2);
    return s;
}

// Wall-clock watchdog of a run. A run that is still making simulation progress when the limit expires (typically a
// starved engine thread under a sanitizer flavour) ends as "inconclusive: slow-run"; a run that makes no progress at all
// during the grace period (a loop inside code without any simulation point) dies with SIGALRM = wall-clock-timeout.
static volatile int g_wallPhase = 0;
static volatile unsigned long long g_wallProgress0 = 0;
static void wallHandler(int) {
    if (g_wallPhase == 0) {
        g_wallPhase = 1;
        g_wallProgress0 = vsim_progress;
        alarm((unsigned)std::max(5, g_wallLimit / 6));
        return;
    }
    if (vsim_progress - g_wallProgress0 >= 100 && g_resultFd >= 0) {
        static const char line[] = "{\"verdict\":\"inconclusive\",\"property\":\"\",\"vclass\":\"slow-run\",\"detail\":\"wall-clock limit reached while the simulation was still making progress\",\"counters\":{},\"info\":{}}\n";
        ssize_t w = write(g_resultFd, line, sizeof line - 1);
        (void)w;
        _exit(0);
    }
    signal(SIGALRM, SIG_DFL);
    raise(SIGALRM);
}

/** Run one scenario in a forked child. Returns a JSON line. */
static std::string runOne(const Scenario& sc, bool keepStderr) {
    const RunClass* rc = findClass(sc.cls);
    if (!rc) return "{\"status\":\"harness-error\",\"error\":\"unknown class\"}";
    int pfd[2];
    if (pipe(pfd) != 0) return "{\"status\":\"harness-error\",\"error\":\"pipe\"}";
    std::string errPath = workDir() + "/stderr.txt";
    auto t0 = std::chrono::steady_clock::now();
    fflush(stdout);
    pid_t pid = fork();
    if (pid == 0) {
        close(pfd[0]);
        g_resultFd = pfd[1];
        int efd = open(errPath.c_str(), O_WRONLY | O_CREAT | O_TRUNC, 0644);
        if (efd >= 0 && !keepStderr) { dup2(efd, 2); close(efd); }
        signal(SIGALRM, wallHandler);
        alarm((unsigned)g_wallLimit);
        Result res;
        rc->run(sc, res);
        emitResultAndExit(res);
    }
    close(pfd[1]);
    std::string childOut = readAll(pfd[0]);
    close(pfd[0]);
    int status = 0;
    waitpid(pid, &status, 0);
    double wall = std::chrono::duration<double>(std::chrono::steady_clock::now() - t0).count();
    std::string st;
    if (WIFSIGNALED(status)) st = "signal" + std::to_string(WTERMSIG(status));
    else st = "exit" + std::to_string(WEXITSTATUS(status));
    // keep only the last complete line of the child's output (the result line)
    while (!childOut.empty() && childOut.back() == '\n') childOut.pop_back();
    size_t nl = childOut.rfind('\n');
    if (nl != std::string::npos) childOut = childOut.substr(nl + 1);
    std::string j = "{\"class\":\"" + sc.cls + "\",\"seed\":" + std::to_string(sc.seed) + ",\"schash\":\"" + hex64(sc.hash()) +
                    "\",\"status\":\"" + st + "\",\"wall_ms\":" + std::to_string((long)(wall * 1000)) + ",\"nops\":" +
                    std::to_string(sc.ops.size());
    if (st != "exit0" || childOut.empty()) {
        j += ",\"stderr\":\"" + jsonEscape(tailOfFile(errPath, 6000)) + "\"";
        if (!childOut.empty() && childOut[0] == '{') j += ",\"r\":" + childOut;
        else j += ",\"r\":null";
    } else
        j += ",\"r\":" + childOut;
    j += "}";
    return j;
}

static void disableAslrAndReexec(char** argv) {
    if (getenv("VERIF_NOASLR_DONE")) return;
    int pers = personality(0xffffffff);
    if (pers != -1 && !(pers & ADDR_NO_RANDOMIZE)) {
        if (personality(pers | ADDR_NO_RANDOMIZE) != -1) {
            setenv("VERIF_NOASLR_DONE", "1", 1);
            execv("/proc/self/exe", argv);
        }
    }
}

static void usage() {
    fprintf(stderr,
            "usage: texelsim classes\n"
            "       texelsim gen <class> <seed> [tier]\n"
            "       texelsim run <scenario-file> [--stderr]\n"
            "       texelsim batch <class> <seed0> <count> [--tier t] [--stride k] [--offset i] [--save dir] [--wall s]\n");
}

int main(int argc, char** argv) {
    disableAslrAndReexec(argv);
    mallopt(M_ARENA_MAX, 1);
    signal(SIGPIPE, SIG_IGN);
    if (argc < 2) { usage(); return 2; }
    std::string mode = argv[1];
    ComputerPlayer::initEngine();
    if (mode == "classes") {
        for (auto& c : allClasses()) printf("%s %s %s\n", c.name, c.property, c.kind);
        return 0;
    }
    if (mode == "dtm" && argc >= 3) { // build/load oracle tables and print their statistics
        for (int i = 2; i < argc; i++) {
            std::vector<std::string> keys;
            if (!strcmp(argv[i], "all3")) keys = dtm::allKeys(3);
            else if (!strcmp(argv[i], "all4")) keys = dtm::allKeys(4);
            else keys.push_back(argv[i]);
            for (auto& k : keys) {
                const dtm::Table& T = dtm::getTable(k);
                long win = 0, loss = 0, draw = 0, ill = 0;
                int maxW = 0, maxL = 0;
                for (size_t j = 0; j < 2 * T.N; j++) {
                    int8_t v = T.val[j];
                    if (v == dtm::ILLEGAL) ill++;
                    else if (v == 0) draw++;
                    else if (v > 0) { win++; if (v > maxW) maxW = v; }
                    else { loss++; if (-v - 1 > maxL) maxL = -v - 1; }
                }
                printf("%s: win %ld (max %d plies = mate in %d) loss %ld (max %d plies) draw %ld illegal %ld\n", k.c_str(), win, maxW,
                       (maxW + 1) / 2, loss, maxL, draw, ill);
            }
        }
        return 0;
    }
    if (mode == "evaldump" && argc >= 4) { // evaldump <net> <seed> [n]: print static evaluations of generated positions
        sess::selectNet(argv[2]);
        Rng r(strtoull(argv[3], nullptr, 10), 1);
        int n = argc > 4 ? atoi(argv[4]) : 20;
        auto et = Evaluate::getEvalHashTables();
        for (int i = 0; i < n; i++) {
            pg::GenPos gp;
            pg::anyPosition(r, gp);
            Evaluate ev(*et);
            ev.connectPosition(gp.pos);
            printf("%d %s\n", ev.evalPos(), TextIO::toFEN(gp.pos).c_str());
        }
        return 0;
    }
    if (mode == "gen" && argc >= 4) {
        const RunClass* rc = findClass(argv[2]);
        if (!rc) { fprintf(stderr, "unknown class\n"); return 2; }
        Scenario sc;
        rc->gen(strtoull(argv[3], nullptr, 10), argc > 4 ? atoi(argv[4]) : 0, sc);
        fputs(sc.toText().c_str(), stdout);
        return 0;
    }
    if (mode == "run" && argc >= 3) {
        Scenario sc;
        if (!Scenario::load(argv[2], sc)) { fprintf(stderr, "cannot load scenario\n"); return 2; }
        bool keep = false;
        for (int i = 3; i < argc; i++) {
            if (!strcmp(argv[i], "--stderr")) keep = true;
            if (!strcmp(argv[i], "--wall") && i + 1 < argc) g_wallLimit = atoi(argv[++i]);
        }
        std::string j = runOne(sc, keep);
        puts(j.c_str());
        return 0;
    }
    if (mode == "batch" && argc >= 5) {
        const RunClass* rc = findClass(argv[2]);
        if (!rc) { fprintf(stderr, "unknown class\n"); return 2; }
        uint64_t seed0 = strtoull(argv[3], nullptr, 10);
        long count = atol(argv[4]);
        int tier = 0;
        long stride = 1, offset = 0;
        std::string saveDir;
        double maxWall = 1e18;
        for (int i = 5; i < argc; i++) {
            if (!strcmp(argv[i], "--tier") && i + 1 < argc) tier = atoi(argv[++i]);
            else if (!strcmp(argv[i], "--stride") && i + 1 < argc) stride = atol(argv[++i]);
            else if (!strcmp(argv[i], "--offset") && i + 1 < argc) offset = atol(argv[++i]);
            else if (!strcmp(argv[i], "--save") && i + 1 < argc) saveDir = argv[++i];
            else if (!strcmp(argv[i], "--wall") && i + 1 < argc) g_wallLimit = atoi(argv[++i]);
            else if (!strcmp(argv[i], "--budget") && i + 1 < argc) maxWall = atof(argv[++i]);
        }
        auto t0 = std::chrono::steady_clock::now();
        for (long i = offset; i < count; i += stride) {
            if (std::chrono::duration<double>(std::chrono::steady_clock::now() - t0).count() > maxWall) break;
            Scenario sc;
            uint64_t seed = seed0 + (uint64_t)i;
            rc->gen(seed, tier, sc);
            std::string j = runOne(sc, false);
            bool bad = j.find("\"status\":\"exit0\"") == std::string::npos || j.find("\"verdict\":\"ok\"") == std::string::npos;
            if (bad && !saveDir.empty()) {
                mkdir(saveDir.c_str(), 0777);
                std::string path = saveDir + "/" + sc.cls + "-" + std::to_string(seed) + ".scn";
                sc.save(path);
                j.insert(j.size() - 1, ",\"scenario_file\":\"" + jsonEscape(path) + "\"");
            }
            puts(j.c_str());
            fflush(stdout);
        }
        return 0;
    }
    usage();
    return 2;
}
