// Reference model of the UCI session contract, evaluated over a recorded session history.
#ifndef VERIF_UCI_ORACLE_HPP_
#define VERIF_UCI_ORACLE_HPP_
#include "session.hpp"
#include "position.hpp"
#include "move.hpp"
#include <string>
#include <vector>

namespace uci {

struct GoRec {
    int sentIdx;                 // index into History::sent
    bool ponder = false;         // still pondering (cleared by ponderhit while the model is built)
    bool ponderKw = false;       // the go command carried the ponder keyword
    bool infiniteKw = false;
    long long wtime = 0, btime = 0, winc = 0, binc = 0, movestogo = 0, depth = 0, nodes = 0, mate = 0, movetime = 0;
    bool modelInfinite = false;  // engine treats the search as infinite (no limit at all)
    std::vector<Move> searchMoves;
    bool posKnown = false;
    Position root;
    std::vector<Move> legal;     // legal moves of root, filtered by searchmoves
    int multiPV = 1;
    int threads = 1;
    bool ownBook = false;
    uint64_t releaseSeq = 0;     // seqSent of the first releasing command (0 = none needed / none sent)
    bool needsRelease = false;
    int bestmoveLine = -1;       // index into History::out
    int firstOut = 0, lastOut = 0; // range of output lines attributed to this go [firstOut,lastOut)
    // options in effect (for C06)
    long long bufferTime = 1000;
    bool ponderOpt = false;
    long long maxNPS = 0;
    bool limitStrength = false;
    long long elo = 1500;
    long long strength = 1000;
    bool analyseMode = false;
};

struct Model {
    std::vector<GoRec> gos;
    std::vector<int> isreadySent;   // indices into sent
    bool quitSent = false;
    uint64_t endSeq = 0;            // seq of quit or EOF
};

/** Replay the sent lines through the model. */
void buildModel(const sess::History& h, Model& m);

/** C05 + C10 counting/ordering/grammar rules. */
void checkContract(const sess::History& h, Model& m, vf::Result& res);

/** C03 legality / well-formedness of results. */
void checkResults(const sess::History& h, const Model& m, vf::Result& res);

/** Line grammar. Returns empty string if well-formed, otherwise a reason. */
std::string checkLineGrammar(const std::string& line);

bool parseUciMove(const std::string& s, Move& m);
void legalMoves(const Position& pos, std::vector<Move>& out);
bool containsMove(const std::vector<Move>& v, const Move& m);

} // namespace uci
#endif
