// C09: multi-threaded operation is free of data races. These run classes are meant for the TSan flavour:
// the seeded scheduler chooses the interleaving (invisible to TSan), ThreadSanitizer is the invariant.
#include "common.hpp"
#include "session.hpp"
#include "uci_oracle.hpp"
#include "posgen.hpp"
#include "gen_util.hpp"
#include "textio.hpp"
#include "proofgamefilter.hpp"
#include <sstream>
#include <iostream>

namespace sess { bool ttIndexViolation(std::string& detail); }
using vf::Rng;
using vf::Scenario;
using namespace gu;

namespace {

void runC09(const Scenario& sc, vf::Result& res) {
    sess::History h;
    harness_session_run(&sc, &h, &res);
    uci::Model m;
    uci::buildModel(h, m);
    uci::checkContract(h, m, res);
    uci::checkResults(h, m, res);
    res.counters["gos"] = (long long)m.gos.size();
}

// short sessions, many threads, option changes between and during searches, new games, Clear Hash on big tables, quit during search
void genC09(uint64_t seed, int tier, Scenario& sc) {
    Rng r(seed, 1), rk(seed, 2);
    sc.cls = "C09";
    sc.seed = seed;
    sess::genSimKnobs(rk, sc, rk.chance(0.3));
    long long cost = pickNodeCost(rk);
    sc.set("node_cost_ns", cost);
    sc.setS("net", "material");
    sc.set("helper_tick_yield", rk.chance(0.5) ? 4 : 16);
    GoOpts go;
    go.minNodes = 30;
    go.maxNodes = tier > 0 ? 2500 : 700;
    go.maxDepth = 3;
    pg::GenPos gp;
    pg::randomGame(r, 0, false, gp);
    pushSend(sc, "setoption name Threads value " + std::to_string(r.range(2, 8)));
    if (r.chance(0.3)) pushSend(sc, "setoption name Hash value " + std::to_string(r.chance(0.5) ? 32 : r.range(1, 8))); // > 16 MB: Clear Hash runs the thread pool
    int n = (int)r.range(3, tier > 0 ? 16 : 9);
    bool ended = false;
    for (int i = 0; i < n && !ended; i++) {
        int k = (int)r.below(100);
        if (k < 35) {
            if (r.chance(0.6)) { pg::anyPosition(r, gp); pushSend(sc, gp.positionCmd); }
            if (r.chance(0.6)) {
                // a burst of option changes right before the search: the protocol thread reads these options (and
                // touches the hash table generation) when it prepares the search, the engine thread writes them
                static const char* burst[] = {"setoption name Hash value 17", "setoption name Hash value 2", "setoption name Clear Hash", "ucinewgame",
                                              "setoption name MultiPV value 2", "setoption name MultiPV value 1", "setoption name Threads value 3",
                                              "setoption name Threads value 2", "setoption name OwnBook value true", "setoption name OwnBook value false",
                                              "setoption name UCI_AnalyseMode value true", "setoption name UCI_AnalyseMode value false",
                                              "setoption name Strength value 900", "setoption name Strength value 1000", "setoption name Contempt value 20",
                                              "setoption name MaxNPS value 0", "setoption name MinProbeDepth value 2", "setoption name AnalysisAgeHash value false",
                                              "uci", "uci", "isready"}; // a GUI may ask for the option list again: the protocol thread answers while the engine thread applies options
                int nb = (int)r.range(2, 4);
                for (int b = 0; b < nb; b++) pushSend(sc, burst[r.below(sizeof(burst) / sizeof(burst[0]))]);
            }
            bool nr;
            pushSend(sc, genGo(r, gp, cost, go, nr));
            if (nr) { genRelease(r, sc, cost, go.maxNodes); pushSend(sc, r.chance(0.3) ? "ponderhit" : "stop"); }
            if (r.chance(0.5)) sc.ops.push_back("wait_bestmove");
        } else if (k < 40) { sc.ops.push_back("wait_bestmove"); genWithheldWindow(r, sc, gp, cost); }
        else if (k < 46) {
            // the GUI re-reads the option list while the engine thread is still applying an option whose listener has
            // synchronisation points of its own (thread start/join, pooled clearing of a big table)
            if (r.chance(0.5)) sc.ops.push_back("wait_bestmove");
            int nq = (int)r.range(1, 3);
            for (int q = 0; q < nq; q++) {
                int o = (int)r.below(4);
                if (o == 0) pushSend(sc, "setoption name Threads value " + std::to_string(r.range(1, 8)));
                else if (o == 1) pushSend(sc, "setoption name Hash value " + std::to_string(r.range(17, 64)));
                else if (o == 2) pushSend(sc, "setoption name Hash value " + std::to_string(r.range(1, 8)));
                else pushSend(sc, genSetOption(r, false));
                if (r.chance(0.7)) {
                    // the engine thread stalls somewhere inside the application of the option (a descheduled thread)
                    sc.ops.push_back("wait_steps " + std::to_string(r.logRange(1, 40)));
                    sc.ops.push_back("freeze engine " + std::to_string(r.logRange(50, 600)));
                }
                pushSend(sc, "uci");
            }
        }
        else if (k < 50) pushSend(sc, "setoption name Threads value " + std::to_string(r.range(1, 8)));
        else if (k < 62) pushSend(sc, genSetOption(r, false));
        else if (k < 70) pushSend(sc, "ucinewgame");
        else if (k < 76) pushSend(sc, "setoption name Clear Hash");
        else if (k < 86) { pushSend(sc, "isready"); if (r.chance(0.5)) sc.ops.push_back("wait_readyok"); }
        else if (k < 92) pushSend(sc, "stop");
        else if (k < 95) { pushSend(sc, "quit"); ended = true; }
        else genGap(r, sc, cost);
        if (!ended && r.chance(0.4)) genGap(r, sc, cost);
    }
    if (!ended) { if (r.chance(0.5)) sc.ops.push_back("wait_bestmove"); pushSend(sc, r.chance(0.8) ? "quit" : "isready"); }
}

// ---- proof-game filter with a worker pool
vf::Result* g_res = nullptr;
void fatalPG(const char* kind, const std::string& detail) {
    g_res->violate("C09", std::string("sim-") + kind, "proof game filter: " + detail);
    vf::emitResultAndExit(*g_res);
}

void runC09PG(const Scenario& sc, vf::Result& res) {
    g_res = &res;
    std::string input;
    for (const std::string& op : sc.ops)
        if (vf::startsWith(op, "fen ")) input += op.substr(4) + "\n";
    const int nWorkers = (int)sc.knobInt("workers", 4);
    std::stringstream devnull;
    std::streambuf* oldLog = std::clog.rdbuf(devnull.rdbuf());
    std::streambuf* oldOut = std::cout.rdbuf(devnull.rdbuf());
    // reference: one worker, no simulator
    std::string ref;
    {
        std::istringstream is(input);
        std::ostringstream os;
        ProofGameFilter f(1);
        f.filterFens(is, os);
        ref = os.str();
    }
    vsim::Config cfg;
    sess::configFromScenario(sc, cfg);
    cfg.timeRoleMask = 1u << vsim::R_ENGINE;
    vsim::onFatal = fatalPG;
    vsim::init(cfg);
    std::string got;
    {
        std::istringstream is(input);
        std::ostringstream os;
        ProofGameFilter f(nWorkers);
        f.filterFens(is, os);
        got = os.str();
    }
    std::clog.rdbuf(oldLog);
    std::cout.rdbuf(oldOut);
    sess::addStatsToResult(res);
    res.counters["pg_lines"] = (long long)std::count(input.begin(), input.end(), '\n');
    res.counters["pg_workers"] = nWorkers;
    if (got != ref)
        res.violate("C09", "filter-output-depends-on-schedule", "output with " + std::to_string(nWorkers) + " workers differs from the one-worker output\n--- 1 worker:\n" +
                    ref.substr(0, 600) + "\n--- pool:\n" + got.substr(0, 600));
}

void genC09PG(uint64_t seed, int tier, Scenario& sc) {
    Rng r(seed, 1);
    sc.cls = "C09PG";
    sc.seed = seed;
    sess::genSimKnobs(r, sc, r.chance(0.3));
    sc.set("workers", r.range(2, 16));
    int n = (int)r.range(2, tier > 0 ? 12 : 6);
    for (int i = 0; i < n; i++) {
        pg::GenPos gp;
        pg::randomGame(r, (int)r.range(1, tier > 0 ? 10 : 5), true, gp);
        // randomGame may start from a seeded opening; the filter wants positions reachable from the initial position
        std::string cmd = gp.positionCmd;
        (void)cmd;
        Position p = TextIO::readFEN(TextIO::startPosFEN);
        UndoInfo ui;
        int plies = (int)r.range(1, tier > 0 ? 10 : 5);
        for (int k = 0; k < plies; k++) {
            std::vector<Move> lm;
            uci::legalMoves(p, lm);
            if (lm.empty()) break;
            p.makeMove(lm[r.below(lm.size())], ui);
        }
        sc.ops.push_back("fen " + TextIO::toFEN(p));
    }
}

vf::ClassRegistrar regC09({"C09", "C09", "session", genC09, runC09});
vf::ClassRegistrar regC09PG({"C09PG", "C09", "unit", genC09PG, runC09PG});

} // namespace
