// C17 (stream-facing half): UCI command lines corrupted by the stdin transport, and PGN read through
// stream buffers that deliver short reads / truncated / corrupted data. The round-trip half of C17 is not decided here.
#include "common.hpp"
#include "session.hpp"
#include "uci_oracle.hpp"
#include "posgen.hpp"
#include "gen_util.hpp"
#include "gametree.hpp"
#include "textio.hpp"
#include "chessError.hpp"
#include <sstream>
#include <streambuf>
#include <cstring>
#include <set>

using vf::Rng;
using vf::Scenario;
using namespace gu;

namespace {

std::string corruptLine(Rng& r, const std::string& in, std::string& kind) {
    std::string s = in;
    int k = (int)r.below(12);
    auto rbyte = [&]() -> char {
        int m = (int)r.below(6);
        if (m == 0) return (char)r.range(0x80, 0xff);
        if (m == 1) return '\0';
        if (m == 2) return " \t"[r.below(2)];
        return (char)r.range(0x20, 0x7e);
    };
    switch (k) {
    case 0: kind = "flip-byte"; if (!s.empty()) s[r.below(s.size())] = rbyte(); break;
    case 1: kind = "insert-byte"; s.insert(r.below(s.size() + 1), 1, rbyte()); break;
    case 2: kind = "delete-byte"; if (!s.empty()) s.erase(r.below(s.size()), 1); break;
    case 3: kind = "truncate"; s.resize(r.below(s.size() + 1)); break;
    case 4: kind = "duplicate-token"; { std::vector<std::string> t = vf::splitWs(s); if (!t.empty()) { size_t i = r.below(t.size()); t.insert(t.begin() + i, t[i]); s.clear(); for (auto& x : t) s += x + " "; } } break;
    case 5: kind = "drop-token"; { std::vector<std::string> t = vf::splitWs(s); if (t.size() > 1) { t.erase(t.begin() + r.below(t.size())); s.clear(); for (auto& x : t) s += x + " "; } } break;
    case 6: kind = "garbage-line"; s.clear(); for (int i = 0, n = (int)r.logRange(1, 4096); i < n; i++) s.push_back(rbyte()); for (auto& c : s) if (c == '\n') c = ' '; break;
    case 7: kind = "swap-tokens"; { std::vector<std::string> t = vf::splitWs(s); if (t.size() > 2) { std::swap(t[r.below(t.size())], t[r.below(t.size())]); s.clear(); for (auto& x : t) s += x + " "; } } break;
    case 8: kind = "damage-number"; { size_t p = s.find_first_of("0123456789"); if (p != std::string::npos) { static const char* v[] = {"-1", "99999999999999999999", "0x10", "1e9", "", "-", "2147483648"}; size_t e = s.find_first_not_of("0123456789", p); s.replace(p, e == std::string::npos ? std::string::npos : e - p, v[r.below(7)]); } } break;
    case 9: kind = "damage-square"; { for (int t = 0; t < 3 && !s.empty(); t++) { size_t p = r.below(s.size()); if (s[p] >= 'a' && s[p] <= 'h') s[p] = (char)('a' + r.below(10)); else if (s[p] >= '1' && s[p] <= '8') s[p] = (char)('0' + r.below(10)); } } break;
    case 10: kind = "long-token"; s += " " + std::string((size_t)r.logRange(10, 3000), (char)r.range(0x21, 0x7e)); break;
    default: kind = "case-change"; for (auto& c : s) if (r.chance(0.3)) c = (char)(isupper((unsigned char)c) ? tolower(c) : toupper(c)); break;
    }
    for (auto& c : s) if (c == '\n' || c == '\r') c = ' ';
    return s;
}

void runC17(const Scenario& sc, vf::Result& res) {
    sess::History h;
    harness_session_run(&sc, &h, &res);
    uci::Model m;
    uci::buildModel(h, m);
    uci::checkContract(h, m, res);   // counting rules for the commands as they were actually delivered
    uci::checkResults(h, m, res);    // legality only where the model still knows the position
    res.counters["gos"] = (long long)m.gos.size();
}

void genC17(uint64_t seed, int tier, Scenario& sc) {
    Rng r(seed, 1), rk(seed, 2), rf(seed, 4);
    sc.cls = "C17";
    sc.seed = seed;
    sess::genSimKnobs(rk, sc, false);
    long long cost = pickNodeCost(rk);
    sc.set("node_cost_ns", cost);
    sc.setS("net", "material");
    GoOpts go;
    go.maxNodes = 1500;
    go.maxDepth = 3;
    pg::GenPos gp;
    pg::randomGame(r, 0, false, gp);
    int n = (int)r.range(2, 25);
    std::vector<std::string> lines;
    for (int i = 0; i < n; i++) {
        int k = (int)r.below(100);
        if (k < 8) lines.push_back("uci");
        else if (k < 18) lines.push_back("isready");
        else if (k < 33) lines.push_back(genSetOption(r, true));
        else if (k < 37) lines.push_back("ucinewgame");
        else if (k < 65) {
            pg::anyPosition(r, gp);
            std::string cmd = gp.positionCmd;
            size_t mp = cmd.find(" moves ");
            if (mp != std::string::npos && r.chance(0.15)) {
                // a move list that belongs to another position: most of its moves are illegal here
                pg::GenPos other;
                pg::anyPosition(r, other);
                size_t op = other.positionCmd.find(" moves ");
                cmd = (op == std::string::npos ? other.positionCmd : other.positionCmd.substr(0, op)) + cmd.substr(mp);
                try {
                    // the engine plays the legal prefix: keep the generator's idea of the root in step with it
                    std::vector<std::string> t = vf::splitWs(cmd);
                    Position p = TextIO::readFEN(TextIO::startPosFEN);
                    size_t i = 1;
                    if (t.size() > 1 && t[1] == "fen") { std::string fen; for (i = 2; i < t.size() && t[i] != "moves"; i++) fen += t[i] + " "; p = TextIO::readFEN(fen); }
                    else i = 2;
                    UndoInfo ui;
                    for (i++; i < t.size(); i++) {
                        std::vector<Move> lm;
                        uci::legalMoves(p, lm);
                        Move m = TextIO::uciStringToMove(t[i]);
                        if (m.isEmpty() || !uci::containsMove(lm, m)) break;
                        p.makeMove(m, ui);
                    }
                    pg::finish(gp, p);
                    gp.positionCmd = cmd;
                } catch (const ChessParseError&) { cmd = gp.positionCmd; }
            }
            lines.push_back(cmd);
        }
        else if (k < 90) { bool nr; lines.push_back(genGo(r, gp, cost, go, nr)); lines.push_back("stop"); }
        else if (k < 95) lines.push_back("stop");
        else lines.push_back("ponderhit");
    }
    // transport faults
    for (size_t i = 0; i < lines.size(); i++) {
        std::string l = lines[i];
        std::string kind;
        if (rf.chance(0.35)) { l = corruptLine(rf, l, kind); sc.faults.push_back("stdin " + std::to_string(i) + " " + kind); }
        if (rf.chance(0.05) && i + 1 < lines.size()) { l += lines[i + 1]; sc.faults.push_back("stdin " + std::to_string(i) + " merged-lines"); } // lost newline
        pushSend(sc, l);
        if (rf.chance(0.05)) { pushSend(sc, l); sc.faults.push_back("stdin " + std::to_string(i) + " duplicated-line"); }
        if (vf::startsWith(lines[i], "go")) { if (r.chance(0.5)) genRelease(r, sc, cost, go.maxNodes); }
        else if (r.chance(0.3)) genGap(r, sc, cost);
    }
    // always end in a way that releases everything: stop, then quit or EOF
    pushSend(sc, "stop");
    if (r.chance(0.5)) pushSend(sc, "quit");
    else sc.ops.push_back("close");
}

// ------------------------------------------------------------------------------------------
struct ChunkBuf : std::streambuf {
    std::string data;
    size_t pos = 0;
    Rng* r;
    int maxChunk;
    char buf[64];
    long refills = 0;
    int underflow() override {
        if (pos >= data.size()) return EOF;
        size_t n = std::min<size_t>((size_t)r->range(1, maxChunk), data.size() - pos);
        n = std::min(n, sizeof buf);
        memcpy(buf, data.data() + pos, n);
        pos += n;
        refills++;
        setg(buf, buf, buf + n);
        return (unsigned char)buf[0];
    }
};

std::string treeString(GameTree& gt) {
    std::string s;
    std::set<GameTree::RangeToNode> ptn;
    gt.getGameTreeString(s, ptn);
    return s;
}

void runC17PGN(const Scenario& sc, vf::Result& res) {
    Rng r(sc.seed, 3);
    int nGames = (int)sc.knobInt("games", 3);
    std::string pgn;
    std::vector<std::string> expect;
    for (int g = 0; g < nGames; g++) {
        GameTree gt;
        int nLines = (int)r.range(1, 6);
        std::vector<Move> mainLine;
        // some games start from a position with several like pieces (promoted queens, knights, rooks, bishops): short
        // move forms then need file, rank or both to be unambiguous
        Position startPos = TextIO::readFEN(TextIO::startPosFEN);
        std::string fenTag;
        if (r.chance(0.5)) {
            for (int attempt = 0; attempt < 20; attempt++) {
                Position q;
                for (int sq = 0; sq < 64; sq++) q.setPiece(Square(sq), Piece::EMPTY);
                std::vector<int> free;
                for (int sq = 0; sq < 64; sq++) free.push_back(sq);
                auto take = [&]() { size_t i = r.below(free.size()); int sq = free[i]; free.erase(free.begin() + (long)i); return sq; };
                q.setPiece(Square(take()), Piece::WKING);
                q.setPiece(Square(take()), Piece::BKING);
                static const int wp[] = {Piece::WQUEEN, Piece::WROOK, Piece::WBISHOP, Piece::WKNIGHT}, bp[] = {Piece::BQUEEN, Piece::BROOK, Piece::BBISHOP, Piece::BKNIGHT};
                int kinds = (int)r.range(1, 2);
                for (int k = 0; k < kinds; k++) {
                    int t = (int)r.below(4), nw = (int)r.range(2, 5), nb = (int)r.range(0, 4);
                    for (int i = 0; i < nw; i++) q.setPiece(Square(take()), wp[t]);
                    for (int i = 0; i < nb; i++) q.setPiece(Square(take()), bp[t]);
                }
                q.setWhiteMove(r.chance(0.5));
                q.setCastleMask(0);
                std::string fen = TextIO::toFEN(q);
                try {
                    Position chk = TextIO::readFEN(fen); // rejects e.g. the side not to move being in check, adjacent kings
                    std::vector<Move> lm;
                    uci::legalMoves(chk, lm);
                    if (lm.empty()) continue;
                    startPos = chk;
                    fenTag = fen;
                    break;
                } catch (const ChessParseError&) {}
            }
        }
        if (!fenTag.empty()) { gt.setStartPos(startPos); res.counters["probe_like_piece_games"]++; }
        for (int l = 0; l < nLines; l++) {
            Position p = startPos;
            UndoInfo ui;
            std::vector<Move> line;
            size_t keep = mainLine.empty() ? 0 : r.below(mainLine.size() + 1);
            for (size_t i = 0; i < keep; i++) { line.push_back(mainLine[i]); p.makeMove(mainLine[i], ui); }
            int extra = (int)r.range(1, 30);
            for (int i = 0; i < extra; i++) {
                std::vector<Move> lm;
                uci::legalMoves(p, lm);
                if (lm.empty()) break;
                Move mv = lm[r.below(lm.size())];
                line.push_back(mv);
                p.makeMove(mv, ui);
            }
            if (l == 0) mainLine = line;
            gt.insertMoves(line);
        }
        std::string body = treeString(gt);
        expect.push_back(body);
        pgn += "[Event \"e" + std::to_string(g) + "\"]\n[Site \"?\"]\n[Date \"2026.01.01\"]\n[Round \"1\"]\n[White \"w\"]\n[Black \"b\"]\n[Result \"*\"]\n" + (fenTag.empty() ? std::string() : "[FEN \"" + fenTag + "\"]\n[SetUp \"1\"]\n") + "\n";
        // wrap lines, add comments and NAGs
        std::vector<std::string> t = vf::splitWs(body);
        int col = 0;
        for (auto& tok : t) {
            pgn += tok;
            if (r.chance(0.1) && tok.find_first_of("()") == std::string::npos) pgn += r.chance(0.5) ? " {a comment (with parens) }" : " $" + std::to_string(r.range(1, 140));
            col += (int)tok.size();
            if (col > 60) { pgn += "\n"; col = 0; } else pgn += " ";
        }
        pgn += " *\n\n";
    }
    // (1) benign short reads: the trees must be equal
    {
        ChunkBuf cb;
        cb.data = pgn;
        cb.r = &r;
        cb.maxChunk = (int)sc.knobInt("max_chunk", 7);
        std::istream is(&cb);
        PgnReader reader(is);
        for (int g = 0; g < nGames; g++) {
            GameTree gt;
            bool ok = false;
            try { ok = reader.readPGN(gt); } catch (const ChessParseError& e) { res.violate("C17", "pgn-short-read-parse-error", std::string("well-formed PGN read in small chunks was rejected: ") + e.what()); return; }
            if (!ok) { res.violate("C17", "pgn-short-read-lost-game", "game " + std::to_string(g) + " missing when the PGN is delivered in chunks of <= " + std::to_string(cb.maxChunk) + " bytes"); return; }
            std::string got = treeString(gt);
            if (got != expect[g]) { res.violate("C17", "pgn-short-read-differs", "tree read through short reads differs:\n" + got.substr(0, 300) + "\nvs\n" + expect[g].substr(0, 300)); return; }
        }
        res.counters["fault_short_read"] = cb.refills;
        res.counters["pgn_games_roundtrip"] = nGames;
    }
    // (2) truncated / corrupted streams: return or throw ChessParseError, never crash or loop
    int nBad = (int)sc.knobInt("bad_variants", 6);
    for (int v = 0; v < nBad; v++) {
        std::string bad = pgn;
        int k = (int)r.below(6);
        if (k == 5) {
            // an opening delimiter at a token boundary that is never closed (variation, comment, string, tag)
            std::vector<size_t> bounds;
            for (size_t i = 1; i < bad.size(); i++) if ((bad[i - 1] == ' ' || bad[i - 1] == '\n') && bad[i] != ' ' && bad[i] != '\n') bounds.push_back(i);
            if (!bounds.empty()) {
                size_t at = r.chance(0.5) ? bounds[r.below(bounds.size())] : bad.find("\n\n") + 2 + 0 * r.below(2);
                if (at > bad.size()) at = bounds[0];
                bad.insert(at, std::string(1, "({\"[;"[r.below(5)]) + (r.chance(0.5) ? " " : ""));
                // remove closers after it so that it stays open until the end of the stream
                if (r.chance(0.7)) for (size_t i = at + 1; i < bad.size(); i++) if (bad[i] == ')' || bad[i] == '}') bad[i] = ' ';
            }
            res.counters["fault_unterminated_delimiter"]++;
        }
        else if (k == 0) { bad.resize(r.below(bad.size() + 1)); res.counters["fault_truncated_stream"]++; }
        else if (k == 1) { for (int i = 0, n = (int)r.range(1, 30); i < n && !bad.empty(); i++) bad[r.below(bad.size())] = (char)r.below(256); res.counters["fault_corrupt_bytes"]++; }
        else if (k == 2) { for (int i = 0, n = (int)r.range(1, 10); i < n && !bad.empty(); i++) bad.insert(r.below(bad.size()), 1, "(){}[]\"$;%\\"[r.below(11)]); res.counters["fault_inserted_delimiters"]++; }
        else if (k == 3) { for (int i = 0, n = (int)r.range(1, 10); i < n && !bad.empty(); i++) bad.erase(r.below(bad.size()), (size_t)r.range(1, 5)); res.counters["fault_deleted_bytes"]++; }
        else { bad.clear(); for (int i = 0, n = (int)r.range(0, 3000); i < n; i++) bad.push_back((char)r.below(256)); res.counters["fault_garbage_stream"]++; }
        ChunkBuf cb;
        cb.data = bad;
        cb.r = &r;
        cb.maxChunk = 50;
        // a parser that does not terminate has no sim point to be caught at: wall-clock watchdog for this stream
        {
            std::string shown = bad.substr(0, 160);
            for (auto& ch : shown) if ((unsigned char)ch < 0x20 || (unsigned char)ch >= 0x7f) ch = '.';
            vf::armHangWatchdog(5, "C17", "pgn-parser-hang", "PgnReader did not return within 5 s on a damaged stream (" + std::to_string(bad.size()) + " bytes) starting with: " + shown);
        }
        std::istream is(&cb);
        PgnReader reader(is);
        for (int g = 0; g < nGames + 3; g++) {
            GameTree gt;
            try {
                if (!reader.readPGN(gt)) break;
                treeString(gt);
                res.counters["bad_stream_games_parsed"]++;
            } catch (const ChessParseError&) {
                res.counters["bad_stream_rejected"]++;
                break;
            }
        }
        vf::disarmHangWatchdog();
    }
    res.info["casehash"] = vf::hex64(vf::fnv1a(pgn));
    res.counters["nontrivial"] = 1;
}

void genC17PGN(uint64_t seed, int tier, Scenario& sc) {
    Rng r(seed, 1);
    sc.cls = "C17PGN";
    sc.seed = seed;
    sc.set("games", r.range(1, 4));
    sc.set("max_chunk", r.chance(0.5) ? 1 : r.range(2, 40));
    sc.set("bad_variants", r.range(2, tier > 0 ? 20 : 8));
}

vf::ClassRegistrar regC17({"C17", "C17", "session", genC17, runC17});
vf::ClassRegistrar regC17P({"C17PGN", "C17", "unit", genC17PGN, runC17PGN});

} // namespace
