#include "common.hpp"
#include <cmath>
#include <cstdlib>
#include <cstring>
#include <fstream>
#include <sys/stat.h>
#include <unistd.h>
#include <signal.h>
#include <algorithm>

namespace vf {

long long Rng::logRange(long long lo, long long hi) {
    if (lo < 1) lo = 1;
    if (hi <= lo) return lo;
    double a = std::log((double)lo), b = std::log((double)hi + 1.0);
    long long v = (long long)std::exp(a + (b - a) * unit());
    if (v < lo) v = lo;
    if (v > hi) v = hi;
    return v;
}

long long Scenario::knobInt(const std::string& k, long long def) const {
    auto it = knobs.find(k);
    if (it == knobs.end()) return def;
    return strtoll(it->second.c_str(), nullptr, 10);
}
double Scenario::knobDbl(const std::string& k, double def) const {
    auto it = knobs.find(k);
    if (it == knobs.end()) return def;
    return strtod(it->second.c_str(), nullptr);
}
std::string Scenario::knobStr(const std::string& k, const std::string& def) const {
    auto it = knobs.find(k);
    return it == knobs.end() ? def : it->second;
}
void Scenario::set(const std::string& k, long long v) { knobs[k] = std::to_string(v); }
void Scenario::setD(const std::string& k, double v) {
    char b[64];
    snprintf(b, sizeof b, "%.9g", v);
    knobs[k] = b;
}

std::string Scenario::toText() const {
    std::string s = "class " + cls + "\nseed " + std::to_string(seed) + "\n";
    for (auto& kv : knobs) s += "knob " + kv.first + " " + kv.second + "\n";
    for (auto& f : faults) s += "fault " + f + "\n";
    for (auto& o : ops) s += "op " + o + "\n";
    return s;
}

bool Scenario::fromText(const std::string& text, Scenario& out) {
    out = Scenario();
    std::istringstream is(text);
    std::string line;
    while (std::getline(is, line)) {
        if (line.empty() || line[0] == '#') continue;
        size_t sp = line.find(' ');
        std::string kw = line.substr(0, sp);
        std::string rest = sp == std::string::npos ? "" : line.substr(sp + 1);
        if (kw == "class") out.cls = rest;
        else if (kw == "seed") out.seed = strtoull(rest.c_str(), nullptr, 10);
        else if (kw == "knob") {
            size_t sp2 = rest.find(' ');
            out.knobs[rest.substr(0, sp2)] = sp2 == std::string::npos ? "" : rest.substr(sp2 + 1);
        } else if (kw == "fault") out.faults.push_back(rest);
        else if (kw == "op") out.ops.push_back(rest);
        else return false;
    }
    return !out.cls.empty();
}

bool Scenario::load(const std::string& path, Scenario& out) {
    std::ifstream f(path, std::ios::binary);
    if (!f) return false;
    std::stringstream ss;
    ss << f.rdbuf();
    return fromText(ss.str(), out);
}

bool Scenario::save(const std::string& path) const {
    std::ofstream f(path, std::ios::binary);
    if (!f) return false;
    f << toText();
    return !!f;
}

uint64_t Scenario::hash() const { return fnv1a(toText()); }

std::string jsonEscape(const std::string& s) {
    std::string o;
    for (unsigned char c : s) {
        if (c == '"' || c == '\\') { o += '\\'; o += (char)c; }
        else if (c == '\n') o += "\\n";
        else if (c == '\t') o += "\\t";
        else if (c < 0x20 || c >= 0x7f) { char b[8]; snprintf(b, sizeof b, "\\u%04x", c); o += b; }
        else o += (char)c;
    }
    return o;
}

std::string Result::toJson() const {
    std::string s = "{\"verdict\":\"" + verdict + "\"";
    if (verdict != "ok") {
        s += ",\"property\":\"" + jsonEscape(property) + "\",\"vclass\":\"" + jsonEscape(vclass) +
             "\",\"detail\":\"" + jsonEscape(detail.substr(0, 2000)) + "\"";
    }
    s += ",\"counters\":{";
    bool first = true;
    for (auto& kv : counters) {
        if (!first) s += ",";
        first = false;
        s += "\"" + jsonEscape(kv.first) + "\":" + std::to_string(kv.second);
    }
    s += "},\"info\":{";
    first = true;
    for (auto& kv : info) {
        if (!first) s += ",";
        first = false;
        s += "\"" + jsonEscape(kv.first) + "\":\"" + jsonEscape(kv.second) + "\"";
    }
    s += "}}";
    return s;
}

uint64_t fnv1a(const void* p, size_t n, uint64_t h) {
    const unsigned char* c = (const unsigned char*)p;
    for (size_t i = 0; i < n; i++) h = (h ^ c[i]) * 1099511628211ULL;
    return h;
}

std::string hex64(uint64_t v) {
    char b[20];
    snprintf(b, sizeof b, "%016llx", (unsigned long long)v);
    return b;
}

std::vector<std::string> splitWs(const std::string& s) {
    std::vector<std::string> out;
    std::istringstream is(s);
    std::string w;
    while (is >> w) out.push_back(w);
    return out;
}

bool startsWith(const std::string& s, const char* p) { return s.compare(0, strlen(p), p) == 0; }

static std::vector<RunClass>& registry() {
    static std::vector<RunClass> r;
    return r;
}
void registerClass(const RunClass& rc) { registry().push_back(rc); }
const RunClass* findClass(const std::string& name) {
    for (auto& c : registry()) if (name == c.name) return &c;
    return nullptr;
}
const std::vector<RunClass>& allClasses() { return registry(); }

std::string workDir() {
    static std::string dir;
    if (dir.empty()) {
        const char* base = getenv("VERIF_WORK");
        dir = std::string(base ? base : "/verif/work") + "/" + std::to_string((long)getpid());
        mkdir((base ? base : "/verif/work"), 0777);
        mkdir(dir.c_str(), 0777);
    }
    return dir;
}

int g_resultFd = 1;

void emitResultAndExit(const Result& res) {
    if (g_resultFd < 0) _exit(res.verdict == "ok" ? 0 : 3); // auxiliary process: no result line
    std::string j = res.toJson() + "\n";
    size_t off = 0;
    while (off < j.size()) {
        ssize_t w = write(g_resultFd, j.data() + off, j.size() - off);
        if (w <= 0) break;
        off += (size_t)w;
    }
    _exit(0);
}

static char g_hangLine[4096];
static size_t g_hangLen = 0;
static void hangHandler(int) {
    if (g_resultFd >= 0 && g_hangLen) { ssize_t w = write(g_resultFd, g_hangLine, g_hangLen); (void)w; }
    _exit(0);
}
void armHangWatchdog(int seconds, const std::string& property, const std::string& vclass, const std::string& detail) {
    Result r;
    r.violate(property, vclass, detail);
    std::string j = r.toJson() + "\n";
    g_hangLen = std::min(j.size(), sizeof(g_hangLine));
    memcpy(g_hangLine, j.data(), g_hangLen);
    signal(SIGALRM, hangHandler);
    alarm((unsigned)seconds);
}
void disarmHangWatchdog() { signal(SIGALRM, SIG_DFL); alarm(120); } // back to the plain per-run watchdog

} // namespace vf
