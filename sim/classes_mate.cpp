// C04: announced mates are real. Sessions at full strength with depth-limited searches (so the engine's own
// on-demand tablebase is not involved) over pawnless <=4-man positions (exact DTM oracle), sparse positions with
// short forced mates (exhaustive AND/OR solver) and mate-in-one positions; Threads 1..4 under seeded schedules.
#include "common.hpp"
#include "session.hpp"
#include "uci_oracle.hpp"
#include "posgen.hpp"
#include "gen_util.hpp"
#include "dtm_oracle.hpp"
#include "tb_adapter.hpp"
#include "textio.hpp"
#include "moveGen.hpp"
#include "posutil.hpp"
#include <set>

namespace sess { bool ttIndexViolation(std::string& detail); }
using vf::Rng;
using vf::Scenario;
using namespace gu;

namespace {

// exhaustive solver ----------------------------------------------------------------------
enum Tri { NO = 0, YES = 1, UNKNOWN = 2 };

bool isMated(Position& p) {
    std::vector<Move> lm;
    uci::legalMoves(p, lm);
    return lm.empty() && MoveGen::inCheck(p);
}

/** Can the side to move force checkmate within n of its own moves? */
Tri canMate(Position& p, int n, long& budget) {
    if (n <= 0) return NO;
    if (--budget < 0) return UNKNOWN;
    std::vector<Move> lm;
    uci::legalMoves(p, lm);
    UndoInfo ui, ui2;
    bool unknown = false;
    for (const Move& m : lm) {
        p.makeMove(m, ui);
        std::vector<Move> replies;
        uci::legalMoves(p, replies);
        Tri r;
        if (replies.empty()) r = MoveGen::inCheck(p) ? YES : NO;
        else if (n == 1) r = NO;
        else {
            r = YES;
            for (const Move& rm : replies) {
                p.makeMove(rm, ui2);
                Tri s = canMate(p, n - 1, budget);
                p.unMakeMove(rm, ui2);
                if (s == NO) { r = NO; break; }
                if (s == UNKNOWN) r = UNKNOWN;
            }
        }
        p.unMakeMove(m, ui);
        if (r == YES) return YES;
        if (r == UNKNOWN) unknown = true;
    }
    return unknown ? UNKNOWN : NO;
}

/** Is the side to move mated within n moves against every defence (n = number of opponent moves)? n == 0: mated now. */
Tri isLostWithin(Position& p, int n, long& budget) {
    std::vector<Move> lm;
    uci::legalMoves(p, lm);
    if (lm.empty()) return MoveGen::inCheck(p) ? YES : NO;
    if (n <= 0) return NO;
    UndoInfo ui;
    bool unknown = false;
    for (const Move& m : lm) {
        p.makeMove(m, ui);
        Tri r = canMate(p, n, budget);
        p.unMakeMove(m, ui);
        if (r == NO) return NO;
        if (r == UNKNOWN) unknown = true;
    }
    return unknown ? UNKNOWN : YES;
}

bool parseScore(const std::string& line, int& depth, bool& mate, long long& score, int& bound) {
    std::vector<std::string> t = vf::splitWs(line);
    if (t.size() < 6 || t[0] != "info" || t[1] != "depth" || t[3] != "score") return false;
    depth = atoi(t[2].c_str());
    mate = t[4] == "mate";
    score = atoll(t[5].c_str());
    bound = t.size() > 6 ? (t[6] == "upperbound" ? -1 : t[6] == "lowerbound" ? 1 : 0) : 0;
    return true;
}

void checkMates(const sess::History& h, const uci::Model& m, vf::Result& res) {
    for (size_t k = 0; k < m.gos.size(); k++) {
        const uci::GoRec& g = m.gos[k];
        if (g.bestmoveLine < 0 || !g.posKnown || g.legal.empty()) continue;
        if (g.strength < 1000 || g.limitStrength || !g.searchMoves.empty()) continue; // the property speaks about full strength
        Position root(g.root);
        std::string ctx = " [go #" + std::to_string(k) + " '" + h.sent[g.sentIdx].text + "' root " + TextIO::toFEN(g.root) + " threads " + std::to_string(g.threads) + "]";
        dtm::Value rv = tba::probe(g.root);
        bool haveDtm = rv.kind == dtm::Value::WIN || rv.kind == dtm::Value::LOSS || rv.kind == dtm::Value::DRAW;
        // mate in one?
        std::vector<Move> matingMoves;
        {
            UndoInfo ui;
            for (const Move& mv : g.legal) { root.makeMove(mv, ui); if (isMated(root)) matingMoves.push_back(mv); root.unMakeMove(mv, ui); }
        }
        int lastDepth = -1, lastBound = 0;
        bool lastMate = false;
        long long lastScore = 0;
        std::string lastLine;
        for (int i = g.firstOut; i < g.lastOut; i++) {
            if (h.out[i].seq < h.sent[g.sentIdx].seqSent) continue;
            int d, b;
            bool mt;
            long long s;
            if (!parseScore(h.out[i].text, d, mt, s, b)) continue;
            if (h.out[i].text.find(" multipv ") != std::string::npos && h.out[i].text.find(" multipv 1 ") == std::string::npos) continue;
            if (mt && s > 0 && b >= 0) {
                // "mate N" as exact score or lower bound: the side to move can force mate within N moves
                res.counters["mate_claims"]++;
                if (haveDtm) {
                    res.counters["mate_claims_verified_dtm"]++;
                    if (!(rv.kind == dtm::Value::WIN && rv.moves() <= s))
                        res.violate("C04", "false-mate-claim", "'" + h.out[i].text + "' but the exact result is " +
                                    (rv.kind == dtm::Value::WIN ? "mate in " + std::to_string(rv.moves()) : rv.kind == dtm::Value::DRAW ? std::string("a draw") : std::string("a loss")) + ctx);
                } else if (s <= 3) {
                    long budget = 200000;
                    Tri r = canMate(root, (int)s, budget);
                    if (r == NO) res.violate("C04", "false-mate-claim", "'" + h.out[i].text + "' but no forced mate in " + std::to_string(s) + " exists (exhaustive search)" + ctx);
                    res.counters[r == UNKNOWN ? "mate_claims_unverified" : "mate_claims_verified_solver"]++;
                } else
                    res.counters["mate_claims_unverified"]++;
            }
            if (b == 0) { lastDepth = d; lastMate = mt; lastScore = s; lastBound = b; lastLine = h.out[i].text; }
        }
        (void)lastBound;
        if (lastDepth < 0) continue;
        const bool completed = g.depth > 0 && g.nodes == 0 && g.movetime == 0 && g.wtime == 0 && g.btime == 0 && !g.infiniteKw && !g.ponderKw &&
                               lastDepth >= std::min<long long>(g.depth, lastDepth); // depth-limited search that was not stopped
        // final losing score of a completed search
        if (completed && lastMate && lastScore < 0) {
            res.counters["loss_claims"]++;
            long long n = -lastScore;
            if (haveDtm) {
                if (!(rv.kind == dtm::Value::LOSS && rv.moves() <= n))
                    res.violate("C04", "false-loss-claim", "final score '" + lastLine + "' but the exact result is " +
                                (rv.kind == dtm::Value::LOSS ? "mated in " + std::to_string(rv.moves()) : std::string("not a loss")) + ctx);
            } else if (n <= 2) {
                long budget = 200000;
                Tri r = isLostWithin(root, (int)n, budget);
                if (r == NO) res.violate("C04", "false-loss-claim", "final score '" + lastLine + "' but the side to move is not mated within " + std::to_string(n) + " moves against every defence" + ctx);
                if (r == UNKNOWN) res.counters["loss_claims_unverified"]++;
            } else
                res.counters["loss_claims_unverified"]++;
        }
        // the move delivered with a winning mate score keeps a forced mate
        std::vector<std::string> bt = vf::splitWs(h.out[g.bestmoveLine].text);
        Move bm;
        bool haveBm = bt.size() >= 2 && uci::parseUciMove(bt[1], bm) && uci::containsMove(g.legal, bm);
        if (haveBm && lastMate && lastScore > 0) {
            UndoInfo ui;
            root.makeMove(bm, ui);
            if (haveDtm) {
                dtm::Value cv = tba::probe(root);
                if (cv.kind != dtm::Value::LOSS && cv.kind != dtm::Value::NOT_COVERED)
                    res.violate("C04", "mate-lost-by-bestmove", "bestmove " + bt[1] + " delivered with '" + lastLine + "' does not keep a forced mate" + ctx);
                res.counters["bestmove_keeps_mate_checked"]++;
            } else if (lastScore <= 3) {
                long budget = 200000;
                Tri r = isLostWithin(root, (int)lastScore - 1, budget);
                if (r == NO) res.violate("C04", "mate-lost-by-bestmove", "bestmove " + bt[1] + " delivered with '" + lastLine + "' does not keep a forced mate in " + std::to_string(lastScore - 1) + ctx);
                if (r != UNKNOWN) res.counters["bestmove_keeps_mate_checked"]++;
            }
            root.unMakeMove(bm, ui);
        }
        // mate in one: final score mate 1 and a mating move at every completed depth
        if (!matingMoves.empty() && completed) {
            res.counters["probe_mate_in_one_roots"]++;
            if (!(lastMate && lastScore == 1))
                res.violate("C04", "mate-in-one-missed", "a mate in one exists but the final score is '" + lastLine + "'" + ctx);
            else if (haveBm && !uci::containsMove(matingMoves, bm))
                res.violate("C04", "mate-in-one-not-played", "a mate in one exists but bestmove " + bt[1] + " does not mate" + ctx);
        }
    }
}

void runC04(const Scenario& sc, vf::Result& res) {
    sess::History h;
    harness_session_run(&sc, &h, &res);
    uci::Model m;
    uci::buildModel(h, m);
    uci::checkContract(h, m, res);
    uci::checkResults(h, m, res);
    checkMates(h, m, res);
    std::string d;
    if (sess::ttIndexViolation(d)) res.violate("C08", "tt-index-out-of-range", d);
    res.counters["gos"] = (long long)m.gos.size();
}

const char* mateInOneFens[] = {
    "6k1/5ppp/8/8/8/8/8/R3K3 w Q - 0 1",              // back rank, also O-O-O does not mate
    "5rk1/5ppp/8/8/8/8/5PPP/4R1K1 w - - 0 1",
    "k7/2P5/1K6/8/8/8/8/8 w - - 0 1",                  // promotion mate c8=Q
    "1k6/P7/1K6/8/8/8/8/8 w - - 0 1",                  // under-promotion needed? a8=Q+ mates
    "7k/5P2/6K1/8/8/8/8/8 w - - 0 1",                  // f8=Q mate
    "r3k2r/8/8/8/8/8/8/4K2R w K - 0 1",
    "5k2/8/5K2/8/8/8/8/3R4 w - - 0 1",
    "rnb1kbnr/pppp1ppp/8/4p3/6Pq/5P2/PPPPP2P/RNBQKBNR w KQkq - 1 3", // already mated (fool's mate) -> no moves
    "rnbqkbnr/pppp1ppp/8/4p3/6P1/5P2/PPPPP2P/RNBQKBNR b KQkq - 0 2", // Qh4#
    "r1bqkb1r/pppp1ppp/2n2n2/4p2Q/2B1P3/8/PPPP1PPP/RNB1K1NR w KQkq - 4 4", // Qxf7#
    "6rk/6pp/8/6N1/8/8/8/6K1 w - - 0 1",              // smothered Nf7#
    "4k3/8/4K3/8/8/8/8/4R2R w - - 0 1",
    "8/8/8/2k5/4Pp2/8/2K5/5Q2 b - e3 0 1",
    "3k4/8/3K4/8/8/8/8/R6R w - - 0 1",
    "k7/8/1K6/8/8/8/8/7B w - - 0 1",
    "7k/6pp/8/8/8/8/1B6/K5R1 w - - 0 1",
    "2kr4/ppp5/8/8/8/8/8/R3K2R w KQ - 0 1",
};

// King behind a wall of pawns on their start rank, attacked by sliders: checks along ranks and diagonals that only a
// pawn move (single or double step) can block, quiet king steps, back-rank patterns.
static bool pawnWall(Rng& r, pg::GenPos& gp) {
    for (int attempt = 0; attempt < 30; attempt++) {
        Position q;
        for (int sq = 0; sq < 64; sq++) q.setPiece(Square(sq), Piece::EMPTY);
        std::set<int> used;
        auto put = [&](int sq, int piece) { if (sq < 0 || sq > 63 || used.count(sq)) return false; used.insert(sq); q.setPiece(Square(sq), piece); return true; };
        int bkFile = (int)r.below(8);
        put((r.chance(0.8) ? 56 : 48) + bkFile, Piece::BKING);
        int nWall = (int)r.range(2, 6);
        for (int i = 0; i < nWall; i++) put(48 + (int)r.below(8), Piece::BPAWN);            // start rank
        for (int i = 0, n = (int)r.below(3); i < n; i++) put(40 + (int)r.below(8), Piece::BPAWN);
        static const int bMinor[] = {Piece::BBISHOP, Piece::BKNIGHT, Piece::BROOK};
        for (int i = 0, n = (int)r.below(3); i < n; i++) put(40 + (int)r.below(24), bMinor[r.below(3)]);
        put((int)r.below(16), Piece::WKING);
        static const int wSl[] = {Piece::WQUEEN, Piece::WQUEEN, Piece::WROOK, Piece::WBISHOP, Piece::WROOK};
        for (int i = 0, n = (int)r.range(1, 3); i < n; i++) put((int)r.below(40), wSl[r.below(5)]);
        for (int i = 0, n = (int)r.below(4); i < n; i++) put(8 + (int)r.below(8), Piece::WPAWN);
        q.setWhiteMove(r.chance(0.7));
        q.setCastleMask(0);
        if (r.chance(0.5)) q = PosUtil::swapColors(q);
        try {
            Position chk = TextIO::readFEN(TextIO::toFEN(q));
            std::vector<Move> lm;
            uci::legalMoves(chk, lm);
            if (lm.empty()) continue;
            gp.positionCmd = "position fen " + TextIO::toFEN(chk);
            pg::finish(gp, chk);
            return true;
        } catch (const ChessParseError&) {}
    }
    return false;
}

void genC04(uint64_t seed, int tier, Scenario& sc) {
    Rng r(seed, 1), rk(seed, 2);
    sc.cls = "C04";
    sc.seed = seed;
    sess::genSimKnobs(rk, sc, false);
    sc.set("node_cost_ns", pickNodeCost(rk));
    sc.setS("net", rk.chance(0.5) ? "material" : "random");
    pushSend(sc, "setoption name Threads value " + std::to_string(r.chance(0.5) ? 1 : r.range(2, 4)));
    pushSend(sc, "setoption name Hash value " + std::to_string(r.chance(0.4) ? 1 : r.range(1, 32)));
    if (r.chance(0.3)) pushSend(sc, "setoption name UseNullMove value false");
    if (r.chance(0.1)) {
        // history script: the on-demand tablebase of a pawnless <= 4-man root is built by a search without depth or node
        // limit, a bigger position is searched on a clock, then the small material comes back. Announced mates of the
        // later searches are checked like all others.
        const long long costNs = sc.knobInt("node_cost_ns", 1000);
        const int men = r.chance(0.6) ? 3 : 4;
        pushSend(sc, "setoption name Hash value " + std::to_string(r.range(8, 32))); // the table needs 7 MB of hash
        for (int round = 0; round < 2; round++) {
            for (int j = 0, n = (int)r.range(1, 2); j < n; j++) {
                pg::GenPos gp;
                if (!pg::sparse(r, men, true, 0, gp)) continue;
                pushSend(sc, gp.positionCmd);
                pushSend(sc, "go infinite");
                sc.ops.push_back("wait_ticks " + std::to_string(r.logRange(2000, 30000)));
                pushSend(sc, "stop");
                sc.ops.push_back("wait_bestmove");
            }
            if (round == 0) {
                pg::GenPos gp;
                pg::randomGame(r, (int)r.range(4, 40), false, gp);
                pushSend(sc, gp.positionCmd);
                long long nodes = r.logRange(5000, 60000);
                pushSend(sc, "go movetime " + std::to_string(std::max(1LL, nodes * costNs / 1000000)));
                sc.ops.push_back("wait_bestmove");
            }
        }
        pushSend(sc, "quit");
        return;
    }
    int nGo = (int)r.range(1, 4);
    for (int i = 0; i < nGo; i++) {
        pg::GenPos gp;
        int kind = (int)r.below(100);
        int maxDepth = 6;
        if (kind < 35) {
            // pawnless <= 4 men
            pg::sparse(r, (int)r.range(3, 4), true, 0, gp);
            maxDepth = tier > 0 ? 14 : 7;
        } else if (kind < 50) {
            std::string fen = mateInOneFens[r.below(sizeof(mateInOneFens) / sizeof(mateInOneFens[0]))];
            gp.positionCmd = "position fen " + fen;
            try { pg::finish(gp, TextIO::readFEN(fen)); } catch (...) { pg::sparse(r, 4, true, 0, gp); }
            maxDepth = 6;
        } else if (kind < 65) {
            if (!pawnWall(r, gp)) pg::sparse(r, 6, false, 0, gp);
            maxDepth = tier > 0 ? 8 : 6;
        } else if (kind < 85) {
            // sparse positions with unbalanced material: short forced mates are frequent
            pg::sparse(r, (int)r.range(5, 9), r.chance(0.4), 0, gp);
            maxDepth = tier > 0 ? 8 : 5;
        } else {
            pg::randomGame(r, (int)r.range(20, 120), true, gp);
            maxDepth = 4;
        }
        pushSend(sc, gp.positionCmd);
        {
            // (thorough tier) very deep searches carry a node cap: a drawn 4-man root at depth 13 can exceed the node budget
            long long d = r.range(1, maxDepth);
            pushSend(sc, "go depth " + std::to_string(d) + (d >= 9 ? " nodes 500000" : ""));
        }
        sc.ops.push_back("wait_bestmove");
        if (r.chance(0.15)) pushSend(sc, "ucinewgame");
    }
    pushSend(sc, "quit");
}

vf::ClassRegistrar regC04({"C04", "C04", "session", genC04, runC04});

} // namespace
