#include "uci_oracle.hpp"
#include "textio.hpp"
#include "moveGen.hpp"
#include "chessError.hpp"
#include <algorithm>
#include <cctype>
#include <cstdlib>
#include <cstring>

namespace uci {

static std::string lower(std::string s) {
    for (auto& c : s) c = (char)tolower((unsigned char)c);
    return s;
}

static bool isUint(const std::string& s) {
    if (s.empty() || s.size() > 18) return false;
    for (char c : s) if (!isdigit((unsigned char)c)) return false;
    return true;
}
static bool isInt(const std::string& s) {
    if (s.empty()) return false;
    if (s[0] == '-') return isUint(s.substr(1));
    return isUint(s);
}
static bool isMoveTok(const std::string& s) {
    if (s == "0000") return true;
    if (s.size() < 4 || s.size() > 5) return false;
    if (s[0] < 'a' || s[0] > 'h' || s[2] < 'a' || s[2] > 'h') return false;
    if (s[1] < '1' || s[1] > '8' || s[3] < '1' || s[3] > '8') return false;
    if (s.size() == 5 && !strchr("qrbn", s[4])) return false;
    return true;
}

bool parseUciMove(const std::string& s, Move& m) {
    if (!isMoveTok(s) || s == "0000") return false;
    m = TextIO::uciStringToMove(s);
    return !m.isEmpty();
}

void legalMoves(const Position& posIn, std::vector<Move>& out) {
    Position pos(posIn);
    MoveList ml;
    MoveGen::pseudoLegalMoves(pos, ml);
    MoveGen::removeIllegal(pos, ml);
    out.clear();
    for (int i = 0; i < ml.size; i++) out.push_back(ml[i]);
}

bool containsMove(const std::vector<Move>& v, const Move& m) {
    for (const Move& x : v) if (x == m) return true;
    return false;
}

// Mirror of the protocol's integer parsing (std::stoi: leading space, optional sign, digit prefix).
static bool stoiLike(const std::string& s, long long& v) {
    try {
        v = std::stoi(s);
        return true;
    } catch (...) {
        v = 0;
        return false;
    }
}

std::string checkLineGrammar(const std::string& line) {
    for (unsigned char c : line)
        if (c < 0x20 || c >= 0x7f) return "non-printable byte";
    std::vector<std::string> t = vf::splitWs(line);
    if (t.empty()) return "empty line";
    const std::string& k = t[0];
    if (k == "readyok" || k == "uciok") return t.size() == 1 ? "" : "extra tokens";
    if (k == "id") return (t.size() >= 3 && (t[1] == "name" || t[1] == "author")) ? "" : "bad id line";
    if (k == "option") {
        if (t.size() < 5 || t[1] != "name") return "bad option line";
        size_t i = 2;
        while (i < t.size() && t[i] != "type") i++;
        if (i + 1 >= t.size()) return "option without type";
        const std::string& ty = t[i + 1];
        if (ty != "check" && ty != "spin" && ty != "combo" && ty != "button" && ty != "string") return "bad option type";
        return "";
    }
    if (k == "bestmove") {
        if (t.size() == 2) return isMoveTok(t[1]) ? "" : "bad bestmove move";
        if (t.size() == 4) return (isMoveTok(t[1]) && t[2] == "ponder" && isMoveTok(t[3])) ? "" : "bad bestmove line";
        return "bad bestmove arity";
    }
    if (k == "info") {
        if (t.size() < 2) return "bare info";
        if (t[1] == "string") return "";
        if (t[1] == "currmove")
            return (t.size() == 5 && isMoveTok(t[2]) && t[3] == "currmovenumber" && isUint(t[4])) ? "" : "bad currmove line";
        if (t[1] == "nodes") {
            // info nodes N nps N hashfull N [tbhits N] time N
            size_t i = 1;
            auto kv = [&](const char* key, bool sign) {
                if (i + 1 >= t.size() || t[i] != key) return false;
                if (!(sign ? isInt(t[i + 1]) : isUint(t[i + 1]))) return false;
                i += 2;
                return true;
            };
            if (!kv("nodes", false) || !kv("nps", false) || !kv("hashfull", false)) return "bad stats line";
            if (i < t.size() && t[i] == "tbhits" && !kv("tbhits", false)) return "bad stats tbhits";
            if (!kv("time", false)) return "bad stats time";
            return i == t.size() ? "" : "trailing tokens in stats line";
        }
        if (t[1] == "depth") {
            if (t.size() == 3) return isUint(t[2]) ? "" : "bad depth";
            size_t i = 1;
            if (i + 1 >= t.size() || !isUint(t[i + 1])) return "bad depth";
            i += 2;
            if (i + 2 >= t.size() || t[i] != "score" || (t[i + 1] != "cp" && t[i + 1] != "mate") || !isInt(t[i + 2]))
                return "bad score";
            i += 3;
            if (i < t.size() && (t[i] == "upperbound" || t[i] == "lowerbound")) i++;
            auto kv = [&](const char* key) {
                if (i + 1 >= t.size() || t[i] != key || !isUint(t[i + 1])) return false;
                i += 2;
                return true;
            };
            if (!kv("time") || !kv("nodes") || !kv("nps")) return "bad pv-line counters";
            if (i < t.size() && t[i] == "tbhits" && !kv("tbhits")) return "bad tbhits";
            if (i < t.size() && t[i] == "multipv" && !kv("multipv")) return "bad multipv";
            if (i >= t.size() || t[i] != "pv") return "missing pv";
            i++;
            if (i >= t.size()) return "empty pv";
            for (; i < t.size(); i++) if (!isMoveTok(t[i]) || t[i] == "0000") return "bad pv move";
            return "";
        }
        return "unknown info kind";
    }
    return "unknown line kind";
}

void buildModel(const sess::History& h, Model& m) {
    Position pos = TextIO::readFEN(TextIO::startPosFEN);
    std::vector<Move> moves;
    bool posKnown = true;
    long long multiPV = 1, threads = 1, bufferTime = 1000, maxNPS = 0, elo = 1500, strength = 1000;
    bool ownBook = false, ponderOpt = false, limitStrength = false, analyseMode = false;

    auto release = [&](uint64_t seq, bool isPonderHit) {
        if (m.gos.empty()) return;
        GoRec& g = m.gos.back();
        if (!g.needsRelease || g.releaseSeq) return;
        if (isPonderHit) {
            if (!g.ponder) return;
            g.ponder = false;
            if (g.modelInfinite) return; // still infinite after ponderhit
        }
        g.releaseSeq = seq;
    };

    for (size_t si = 0; si < h.sent.size(); si++) {
        const sess::SentLine& s = h.sent[si];
        std::vector<std::string> t = vf::splitWs(s.text);
        if (t.empty()) continue;
        const std::string& c = t[0];
        int n = (int)t.size();
        if (c == "isready") {
            m.isreadySent.push_back((int)si);
        } else if (c == "setoption") {
            if (n < 2 || t[1] != "name") continue;
            std::string name, value;
            int i = 2;
            while (i < n && t[i] != "value") { name += lower(t[i++]); name += ' '; }
            if (i < n && t[i++] == "value") while (i < n) { value += t[i++]; value += ' '; }
            while (!name.empty() && name.back() == ' ') name.pop_back();
            while (!value.empty() && value.back() == ' ') value.pop_back();
            long long v;
            auto spin = [&](long long lo, long long hi, long long& dst) {
                if (stoiLike(value, v) && v >= lo && v <= hi) dst = v;
            };
            auto chk = [&](bool& dst) {
                if (lower(value) == "true") dst = true;
                else if (lower(value) == "false") dst = false;
            };
            if (name == "multipv") spin(1, 256, multiPV);
            else if (name == "threads") spin(1, 512, threads);
            else if (name == "buffertime") spin(1, 10000, bufferTime);
            else if (name == "maxnps") spin(0, 10000000, maxNPS);
            else if (name == "uci_elo") spin(-625, 2900, elo);
            else if (name == "strength") spin(0, 1000, strength);
            else if (name == "ownbook") chk(ownBook);
            else if (name == "ponder") chk(ponderOpt);
            else if (name == "uci_limitstrength") chk(limitStrength);
            else if (name == "uci_analysemode") chk(analyseMode);
        } else if (c == "position") {
            if (n < 2) continue;
            int idx = 1;
            std::string fen;
            if (t[idx] == "startpos") { idx++; fen = TextIO::startPosFEN; }
            else if (t[idx] == "fen") {
                idx++;
                while (idx < n && t[idx] != "moves") { fen += t[idx++]; fen += ' '; }
                while (!fen.empty() && fen.back() == ' ') fen.pop_back();
            }
            if (fen.empty()) continue;
            try {
                Position p = TextIO::readFEN(fen);
                pos = p;
            } catch (const ChessParseError&) {
                continue; // engine keeps the previous position and move list
            }
            moves.clear();
            posKnown = true;
            if (idx < n && t[idx++] == "moves") {
                for (int i = idx; i < n; i++) {
                    Move mv = TextIO::uciStringToMove(t[i]);
                    if (mv.isEmpty()) break;
                    moves.push_back(mv);
                }
            }
        } else if (c == "go") {
            release(s.seqSent, false);
            GoRec g;
            g.sentIdx = (int)si;
            int idx = 1;
            while (idx < n) {
                const std::string sub = t[idx++];
                auto num = [&](long long& dst) { if (idx < n) stoiLike(t[idx++], dst); };
                if (sub == "searchmoves") {
                    while (idx < n) {
                        Move mv = TextIO::uciStringToMove(t[idx]);
                        if (mv.isEmpty()) break;
                        g.searchMoves.push_back(mv);
                        idx++;
                    }
                } else if (sub == "ponder") g.ponder = g.ponderKw = true;
                else if (sub == "wtime") num(g.wtime);
                else if (sub == "btime") num(g.btime);
                else if (sub == "winc") num(g.winc);
                else if (sub == "binc") num(g.binc);
                else if (sub == "movestogo") num(g.movestogo);
                else if (sub == "depth") num(g.depth);
                else if (sub == "nodes") num(g.nodes);
                else if (sub == "mate") num(g.mate);
                else if (sub == "movetime") num(g.movetime);
                else if (sub == "infinite") g.infiniteKw = true;
            }
            bool timeLimit = !g.infiniteKw && (g.movetime > 0 || g.wtime != 0 || g.btime != 0);
            bool depthLimit = !g.infiniteKw && (g.depth > 0 || g.mate > 0);
            bool nodeLimit = !g.infiniteKw && g.nodes > 0;
            g.modelInfinite = !timeLimit && !depthLimit && !nodeLimit;
            g.needsRelease = g.ponder || g.modelInfinite;
            // root position: the legal prefix of the move list (an illegal move and everything after it is ignored)
            g.posKnown = posKnown;
            Position p(pos);
            if (g.posKnown) {
                UndoInfo ui;
                for (const Move& mv : moves) {
                    std::vector<Move> lm;
                    legalMoves(p, lm);
                    if (!containsMove(lm, mv)) break;
                    p.makeMove(mv, ui);
                }
            }
            g.root = p;
            if (g.posKnown) {
                std::vector<Move> lm;
                legalMoves(p, lm);
                if (g.searchMoves.empty()) g.legal = lm;
                else for (const Move& mv : lm) if (containsMove(g.searchMoves, mv)) g.legal.push_back(mv);
            }
            g.multiPV = (int)multiPV;
            g.threads = (int)threads;
            g.ownBook = ownBook;
            g.bufferTime = bufferTime;
            g.ponderOpt = ponderOpt;
            g.maxNPS = maxNPS;
            g.limitStrength = limitStrength;
            g.elo = elo;
            g.strength = strength;
            g.analyseMode = analyseMode;
            m.gos.push_back(g);
        } else if (c == "stop") {
            release(s.seqSent, false);
        } else if (c == "ponderhit") {
            release(s.seqSent, true);
        } else if (c == "quit") {
            release(s.seqSent, false);
            m.quitSent = true;
            m.endSeq = s.seqSent;
            break; // nothing after quit is processed
        }
    }
    if (!m.quitSent && h.eofSent) {
        release(h.seqEof, false);
        m.endSeq = h.seqEof;
    }
}

static bool isSearchOutput(const std::string& l) {
    return vf::startsWith(l, "info depth") || vf::startsWith(l, "info currmove") || vf::startsWith(l, "info nodes");
}

void checkContract(const sess::History& h, Model& m, vf::Result& res) {
    // --- grammar of every line
    for (size_t i = 0; i < h.out.size(); i++) {
        std::string why = checkLineGrammar(h.out[i].text);
        if (!why.empty()) {
            res.violate("C05", "malformed-line", "output line " + std::to_string(i) + " '" + h.out[i].text + "': " + why +
                        (h.out[i].torn ? " (pieces written by more than one thread)" : ""));
            break;
        }
    }
    if (!h.partialLine.empty())
        res.violate("C05", "malformed-line", "unterminated output at exit: '" + h.partialLine + "'");

    // --- readyok
    std::vector<int> readyoks, bestmoves;
    for (size_t i = 0; i < h.out.size(); i++) {
        if (h.out[i].text == "readyok") readyoks.push_back((int)i);
        if (vf::startsWith(h.out[i].text, "bestmove")) bestmoves.push_back((int)i);
    }
    // only isready lines that were sent before quit count (lines after quit are never read)
    size_t nIsready = 0;
    for (int si : m.isreadySent)
        if (!m.quitSent || h.sent[si].seqSent < m.endSeq) nIsready++;
    if (readyoks.size() != nIsready)
        res.violate("C05", "readyok-count", "isready sent " + std::to_string(nIsready) + ", readyok received " +
                    std::to_string(readyoks.size()));
    for (size_t k = 0; k < std::min(readyoks.size(), nIsready); k++)
        if (h.out[readyoks[k]].seq < h.sent[m.isreadySent[k]].seqSent)
            res.violate("C05", "readyok-order", "readyok #" + std::to_string(k) + " precedes its isready");

    // --- bestmove count / order
    if (bestmoves.size() != m.gos.size())
        res.violate("C05", "bestmove-count", "go sent " + std::to_string(m.gos.size()) + ", bestmove received " +
                    std::to_string(bestmoves.size()));
    for (size_t k = 0; k < std::min(bestmoves.size(), m.gos.size()); k++) {
        GoRec& g = m.gos[k];
        g.bestmoveLine = bestmoves[k];
        const sess::OutLine& bl = h.out[bestmoves[k]];
        const sess::SentLine& gs = h.sent[g.sentIdx];
        if (bl.seq < gs.seqSent)
            res.violate("C05", "bestmove-order", "bestmove #" + std::to_string(k) + " precedes its go");
        if (g.needsRelease) {
            if (g.releaseSeq == 0 || bl.seq < g.releaseSeq)
                res.violate("C05", "bestmove-unreleased", "bestmove for '" + gs.text + "' emitted before any releasing command was sent");
        }
        // output attribution: everything after the previous bestmove up to and including this bestmove
        g.firstOut = k == 0 ? 0 : bestmoves[k - 1] + 1;
        g.lastOut = bestmoves[k] + 1;
        // no search output between this bestmove and the sending of the next go (or the end)
        uint64_t until = (k + 1 < m.gos.size()) ? h.sent[m.gos[k + 1].sentIdx].seqSent : ~0ULL;
        for (size_t i = bestmoves[k] + 1; i < h.out.size() && h.out[i].seq < until; i++)
            if (isSearchOutput(h.out[i].text)) {
                res.violate("C05", "output-after-bestmove", "search output '" + h.out[i].text + "' after bestmove #" + std::to_string(k) +
                            " and before the next go");
                break;
            }
        // search output for go k must not precede the sending of go k
        for (int i = g.firstOut; i < g.lastOut; i++)
            if (h.out[i].seq < gs.seqSent && isSearchOutput(h.out[i].text)) {
                res.violate("C05", "output-before-go", "search output '" + h.out[i].text + "' before go #" + std::to_string(k) + " was sent");
                break;
            }
    }
    if (!h.mainReturned)
        res.violate("C05", "no-exit", "UCIProtocol::main did not return");
    else if (!h.threadsAllDone)
        res.violate("C10", "threads-left", "threads still alive after the protocol main function returned: " + vsim::dumpThreads());
}

static bool parseScoreLine(const std::vector<std::string>& t, int& depth, bool& mate, long long& score, int& bound,
                           int& multipv, std::vector<std::string>& pv) {
    // info depth D score (cp|mate) S [upperbound|lowerbound] time .. nodes .. nps .. [tbhits ..] [multipv K] pv ...
    if (t.size() < 6 || t[0] != "info" || t[1] != "depth" || t[3] != "score") return false;
    depth = atoi(t[2].c_str());
    mate = t[4] == "mate";
    score = atoll(t[5].c_str());
    bound = 0;
    multipv = -1;
    pv.clear();
    size_t i = 6;
    if (i < t.size() && t[i] == "upperbound") { bound = -1; i++; }
    else if (i < t.size() && t[i] == "lowerbound") { bound = 1; i++; }
    for (; i < t.size(); i++) {
        if (t[i] == "multipv" && i + 1 < t.size()) multipv = atoi(t[i + 1].c_str());
        if (t[i] == "pv") { for (size_t j = i + 1; j < t.size(); j++) pv.push_back(t[j]); break; }
    }
    return true;
}

void checkResults(const sess::History& h, const Model& m, vf::Result& res) {
    for (size_t k = 0; k < m.gos.size(); k++) {
        const GoRec& g = m.gos[k];
        if (g.bestmoveLine < 0) continue;
        const std::string& goText = h.sent[g.sentIdx].text;
        if (!g.posKnown) { res.counters["go_pos_unknown"]++; continue; }
        res.counters["go_checked"]++;
        std::string ctx = " [go #" + std::to_string(k) + " '" + goText + "' root " + TextIO::toFEN(g.root) + "]";
        // --- bestmove
        std::vector<std::string> bt = vf::splitWs(h.out[g.bestmoveLine].text);
        if (bt.size() < 2) continue; // grammar violation reported elsewhere
        if (bt[1] == "0000") {
            if (!g.legal.empty())
                res.violate("C03", "null-bestmove", "bestmove 0000 although " + std::to_string(g.legal.size()) + " moves are available" + ctx);
            else
                res.counters["probe_no_legal_move_root"]++;
        } else {
            Move bm;
            if (!parseUciMove(bt[1], bm) || !containsMove(g.legal, bm)) {
                std::vector<Move> all;
                legalMoves(g.root, all);
                Move tmp;
                bool legalAtAll = parseUciMove(bt[1], tmp) && containsMove(all, tmp);
                res.violate("C03", legalAtAll ? "bestmove-not-in-searchmoves" : "illegal-bestmove",
                            "bestmove " + bt[1] + (legalAtAll ? " is not one of the requested searchmoves" : " is not legal") + ctx);
            } else if (bt.size() == 4) {
                Position p(g.root);
                UndoInfo ui;
                p.makeMove(bm, ui);
                std::vector<Move> lm;
                legalMoves(p, lm);
                Move pm;
                if (!parseUciMove(bt[3], pm) || !containsMove(lm, pm))
                    res.violate("C03", "illegal-ponder-move", "ponder move " + bt[3] + " is not legal after " + bt[1] + ctx);
                else
                    res.counters["ponder_moves_checked"]++;
            }
        }
        if (g.legal.size() == 1) res.counters["probe_single_legal_move_root"]++;
        // --- info lines
        int lastMultipv = 0;
        long scoreLines = 0, linesWithIndex = 0;
        std::vector<std::string> reportFirstMoves;
        int maxLines = std::min<int>(g.multiPV, (int)g.legal.size());
        for (int i = g.firstOut; i < g.lastOut; i++) {
            const std::string& line = h.out[i].text;
            if (h.out[i].seq < h.sent[g.sentIdx].seqSent) continue;
            if (!vf::startsWith(line, "info depth") || line.find(" score ") == std::string::npos) continue;
            std::vector<std::string> t = vf::splitWs(line);
            int depth, bound, mpv;
            bool mate;
            long long score;
            std::vector<std::string> pv;
            if (!parseScoreLine(t, depth, mate, score, bound, mpv, pv)) continue;
            res.counters["pv_lines_checked"]++;
            scoreLines++;
            if (mpv > 0) linesWithIndex++;
            if (mate) {
                if (score == 0 || score > 8000 || score < -8000)
                    res.violate("C03", "mate-score-range", "line '" + line + "' has mate distance out of range" + ctx);
                res.counters["probe_mate_score_lines"]++;
            } else if (score > 16000 || score < -16000)
                res.violate("C03", "cp-score-range", "line '" + line + "' has a centipawn score in the mate range" + ctx);
            if (line.find("upperbound") != std::string::npos && line.find("lowerbound") != std::string::npos)
                res.violate("C03", "both-bounds", "line '" + line + "'" + ctx);
            // pv playable
            Position p(g.root);
            UndoInfo ui;
            for (size_t j = 0; j < pv.size(); j++) {
                std::vector<Move> lm;
                legalMoves(p, lm);
                Move mv;
                if (!parseUciMove(pv[j], mv) || !containsMove(lm, mv)) {
                    res.violate("C03", "illegal-pv-move", "pv move #" + std::to_string(j) + " (" + pv[j] + ") of '" + line + "' is not legal" + ctx);
                    break;
                }
                if (j == 0 && !containsMove(g.legal, mv)) {
                    res.violate("C03", "pv-not-in-searchmoves", "pv of '" + line + "' starts with a move outside searchmoves" + ctx);
                    break;
                }
                p.makeMove(mv, ui);
            }
            // multipv bookkeeping
            if (mpv > 0) {
                if (mpv > maxLines)
                    res.violate("C03", "multipv-index", "multipv " + std::to_string(mpv) + " exceeds min(MultiPV, root moves)=" +
                                std::to_string(maxLines) + " in '" + line + "'" + ctx);
                if (!(mpv == lastMultipv + 1 && mpv > 1)) {
                    // not a continuation of the current report: a report starts with index 1
                    reportFirstMoves.clear();
                    if (mpv != 1) { lastMultipv = 0; continue; }
                }
                if (!pv.empty()) {
                    for (const std::string& f : reportFirstMoves)
                        if (f == pv[0])
                            res.violate("C03", "multipv-duplicate", "two lines of one multi-PV report start with " + f + " ('" + line + "')" + ctx);
                    reportFirstMoves.push_back(pv[0]);
                }
                lastMultipv = mpv;
                if (mpv > 1) res.counters["probe_multipv_lines"]++;
            }
        }
        // An option sent before a go is in effect for that search (C05): MultiPV is observable in the output.
        // Only full-strength searches are judged (reduced strength may cut the root move list down to one move).
        if (scoreLines > 0 && g.strength >= 1000 && !g.limitStrength && g.legal.size() >= 2) {
            res.counters["multipv_effect_checked"]++;
            if (g.multiPV > 1 && linesWithIndex == 0)
                res.violate("C05", "option-not-in-effect", "MultiPV=" + std::to_string(g.multiPV) + " was set before this go but no line of its output carries a multipv index" + ctx);
            if (g.multiPV == 1 && linesWithIndex > 0)
                res.violate("C05", "option-not-in-effect", "MultiPV=1 but the output carries multipv indices" + ctx);
        }
    }
}

} // namespace uci
