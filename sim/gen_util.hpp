// Shared pieces of the session workload generators.
#ifndef VERIF_GEN_UTIL_HPP_
#define VERIF_GEN_UTIL_HPP_
#include "common.hpp"
#include "posgen.hpp"

namespace gu {

struct GoOpts {
    long minNodes = 100;
    long maxNodes = 15000;
    int maxDepth = 0;          // 0 = by material
    bool allowPonder = true;
    bool allowSearchMoves = true;
};

void pushSend(vf::Scenario& sc, const std::string& line);
long long pickNodeCost(vf::Rng& r);
/** A go command whose work is bounded by about o.maxNodes nodes under the run's node cost. */
std::string genGo(vf::Rng& r, const pg::GenPos& gp, long long costNs, const GoOpts& o, bool& needsRelease);
/** A GUI wait op placing the next command somewhere inside the running search. */
void genRelease(vf::Rng& r, vf::Scenario& sc, long long costNs, long maxNodes);
void genGap(vf::Rng& r, vf::Scenario& sc, long long costNs);
std::string genSetOption(vf::Rng& r, bool wild);
/** Options/isready arriving while a self-terminated ponder/infinite search waits for its release. */
void genWithheldWindow(vf::Rng& r, vf::Scenario& sc, pg::GenPos& gp, long long cost);

} // namespace gu
#endif
