// Shared helpers: PRNG streams, scenario files, result lines, run-class registry.
#ifndef VERIF_COMMON_HPP_
#define VERIF_COMMON_HPP_
#include <cstdint>
#include <cstdio>
#include <map>
#include <sstream>
#include <string>
#include <vector>

namespace vf {

/** splitmix64 stream. Independent streams are derived with Rng(seed, streamId). */
struct Rng {
    uint64_t s;
    explicit Rng(uint64_t seed = 1, uint64_t stream = 0) {
        s = seed * 0x9E3779B97F4A7C15ULL ^ (stream + 1) * 0xD1B54A32D192ED03ULL;
        next(); next();
    }
    uint64_t next() {
        uint64_t z = (s += 0x9E3779B97F4A7C15ULL);
        z = (z ^ (z >> 30)) * 0xBF58476D1CE4E5B9ULL;
        z = (z ^ (z >> 27)) * 0x94D049BB133111EBULL;
        return z ^ (z >> 31);
    }
    /** uniform in [0,n) */
    uint64_t below(uint64_t n) { return n ? next() % n : 0; }
    /** uniform in [lo,hi] */
    long long range(long long lo, long long hi) { return lo + (long long)below((uint64_t)(hi - lo + 1)); }
    double unit() { return (next() >> 11) * (1.0 / 9007199254740992.0); }
    bool chance(double p) { return unit() < p; }
    template <class T> const T& pick(const std::vector<T>& v) { return v[below(v.size())]; }
    /** log-uniform integer in [lo,hi] */
    long long logRange(long long lo, long long hi);
};

struct Scenario {
    std::string cls;
    uint64_t seed = 0;
    std::map<std::string, std::string> knobs;
    std::vector<std::string> ops;     // workload, one op per line
    std::vector<std::string> faults;  // explicit fault plan, one per line

    long long knobInt(const std::string& k, long long def) const;
    double knobDbl(const std::string& k, double def) const;
    std::string knobStr(const std::string& k, const std::string& def) const;
    void set(const std::string& k, long long v);
    void setD(const std::string& k, double v);
    void setS(const std::string& k, const std::string& v) { knobs[k] = v; }

    std::string toText() const;
    static bool fromText(const std::string& text, Scenario& out);
    static bool load(const std::string& path, Scenario& out);
    bool save(const std::string& path) const;
    uint64_t hash() const;
};

struct Result {
    std::string verdict = "ok";      // ok | violation
    std::string property;            // property id of the violation
    std::string vclass;              // coarse violation class (stable under minimisation)
    std::string detail;              // human readable
    std::map<std::string, long long> counters; // fault-fired counts, probes, measures
    std::map<std::string, std::string> info;    // hashes, samples
    void violate(const std::string& prop, const std::string& cls, const std::string& det) {
        if (verdict == "ok") { verdict = "violation"; property = prop; vclass = cls; detail = det; }
        counters["violations_total"]++;
    }
    std::string toJson() const;
};

std::string jsonEscape(const std::string& s);
uint64_t fnv1a(const void* p, size_t n, uint64_t h = 1469598103934665603ULL);
inline uint64_t fnv1a(const std::string& s, uint64_t h = 1469598103934665603ULL) { return fnv1a(s.data(), s.size(), h); }
std::string hex64(uint64_t v);
std::vector<std::string> splitWs(const std::string& s);
bool startsWith(const std::string& s, const char* p);

/** A run class: a scenario generator and an executor. One run == one forked child. */
struct RunClass {
    const char* name;
    const char* property;   // property id this class primarily serves
    const char* kind;       // "session" (real UCIProtocol::main under vsim) or "unit" (component harness)
    void (*gen)(uint64_t seed, int tier, Scenario& sc);
    void (*run)(const Scenario& sc, Result& res);
};
void registerClass(const RunClass& rc);
const RunClass* findClass(const std::string& name);
const std::vector<RunClass>& allClasses();

struct ClassRegistrar { explicit ClassRegistrar(const RunClass& rc) { registerClass(rc); } };

/** Directory for scratch files of the current run (created on demand, under /verif/work). */
std::string workDir();

/** The child's result sink; set by main. */
extern int g_resultFd;
void emitResultAndExit(const Result& res);

/** Component harnesses without sim points: report a hang as a violation after `seconds` of wall-clock time
 *  (the result line is prepared in advance; the SIGALRM handler only writes it). */
void armHangWatchdog(int seconds, const std::string& property, const std::string& vclass, const std::string& detail);
void disarmHangWatchdog();

} // namespace vf
#endif
