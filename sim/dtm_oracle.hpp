// Independent distance-to-mate oracle for pawnless positions with at most four men.
// Shares nothing with the repo's tb/tbgen.cpp: plain 2*64^n arrays, its own ray-walking move generator,
// predecessor-based retrograde analysis, captures resolved through sub-tables, no symmetry reduction
// (only the colour flip is used to halve the number of material classes).
#ifndef VERIF_DTM_ORACLE_HPP_
#define VERIF_DTM_ORACLE_HPP_
#include <cstdint>
#include <string>
#include <vector>

namespace dtm {

struct Man { char type; bool white; }; // type in "KQRBN"

enum { ILLEGAL = -128 };

/** Result of a probe. */
struct Value {
    enum Kind { DRAW, WIN, LOSS, ILLEGAL_POS, NOT_COVERED } kind;
    int plies;   // WIN: plies until mate is delivered (odd), LOSS: plies until mated (even, 0 = checkmated now)
    int moves() const { return kind == WIN ? (plies + 1) / 2 : plies / 2; }
};

struct Table {
    std::string key;            // e.g. "KQvKR" (white men v black men)
    std::vector<Man> men;       // men[0] = white king, men[1] = black king, then extras (white first)
    int n = 0;
    size_t N = 0;               // 64^n
    const int8_t* val = nullptr; // 2*N entries, index = stm*N + sum sq[i]*64^i (stm: 0 = white to move)
    int maxWinPlies = 0;
    Value probe(bool whiteToMove, const int* sq) const;
};

/** Canonical key for a set of men (kings included or not). Sets flip if colours must be swapped. */
std::string canonicalKey(const std::vector<Man>& menIn, bool& flip);

/** Get (load from cache or build) the table for a canonical key. Thread-unsafe; call before forking. */
const Table& getTable(const std::string& key);

/** Probe any pawnless position of <= 4 men given as a list of (man, square). */
Value probe(const std::vector<Man>& men, const std::vector<int>& sq, bool whiteToMove);

/** All canonical keys with the given number of men (3 or 4). */
std::vector<std::string> allKeys(int nMen);

void setCacheDir(const std::string& dir);

} // namespace dtm
#endif
