// Session run classes: C05 (protocol contract), C10 (search control), C03 (result legality).
#include "common.hpp"
#include "session.hpp"
#include "uci_oracle.hpp"
#include "posgen.hpp"
#include "gen_util.hpp"
#include "textio.hpp"

namespace sess { bool ttIndexViolation(std::string& detail); }

using vf::Rng;
using vf::Scenario;

namespace gu {

void pushSend(Scenario& sc, const std::string& line) { sc.ops.push_back("send " + line); }

long long pickNodeCost(Rng& r) { return r.logRange(200, 10000000); }

std::string genGo(Rng& r, const pg::GenPos& gp, long long costNs, const GoOpts& o, bool& needsRelease) {
    std::string go = "go";
    needsRelease = false;
    long long T = r.logRange(o.minNodes, o.maxNodes);
    long long ms = std::max(1LL, std::min(100000LL, T * costNs / 1000000));
    if (o.allowPonder && r.chance(0.15)) { go += " ponder"; needsRelease = true; }
    if (o.allowSearchMoves && !gp.legalUci.empty() && r.chance(0.2)) {
        go += " searchmoves";
        int n = (int)r.range(1, std::min<long long>(4, (long long)gp.legalUci.size()));
        for (int i = 0; i < n; i++) go += " " + gp.legalUci[r.below(gp.legalUci.size())];
    }
    int maxDepth = gp.men <= 5 ? 12 : gp.men <= 12 ? 8 : 6;
    if (o.maxDepth > 0) maxDepth = std::min(maxDepth, o.maxDepth);
    int kind = (int)r.below(100);
    if (kind < 25) {
        long long d = r.range(1, maxDepth);
        go += " depth " + std::to_string(d);
        // deep searches always carry a node cap: with the 'extreme' network (poor move ordering) a depth-6 search of a
        // middlegame position can exceed the node budget of a run
        if (d > 4 || r.chance(0.3)) go += " nodes " + std::to_string(d > 4 ? std::max<long long>(T, 20000) : T);
    } else if (kind < 45) {
        go += " nodes " + std::to_string(T);
    } else if (kind < 60) {
        go += " movetime " + std::to_string(ms);
    } else if (kind < 80) {
        // the mover's thinking time must stay within a few multiples of ms (= T nodes): with few moves to go, or a large
        // increment, the engine spends nearly the whole clock / increment on this move
        long long mtg = -1;
        if (r.chance(0.5)) mtg = r.chance(0.2) ? r.range(0, 1) : r.range(2, 100);
        long long mult = (mtg >= 0 && mtg <= 1) ? r.range(1, 3) : (mtg >= 2 && mtg < 20) ? r.range(2, 3 * mtg) : r.range(5, 60);
        long long base = std::max(1LL, std::min(10000000LL, ms * mult));
        long long other = std::max(1LL, std::min(10000000LL, ms * r.range(1, 80)));
        bool w = gp.pos.isWhiteMove();
        go += " wtime " + std::to_string(w ? base : other) + " btime " + std::to_string(w ? other : base);
        if (r.chance(0.5)) {
            long long myInc = r.chance(0.2) ? std::min(100000LL, std::min(base * 2, ms * 3)) : r.range(0, std::max(1LL, std::min(100000LL, std::min(base / 10, ms * 3))));
            long long otherInc = r.range(0, std::max(1LL, std::min(100000LL, other / 10)));
            go += " winc " + std::to_string(w ? myInc : otherInc);
            go += " binc " + std::to_string(w ? otherInc : myInc);
        }
        if (mtg >= 0) go += " movestogo " + std::to_string(mtg);
    } else if (kind < 87) {
        go += " mate " + std::to_string(r.range(1, 4));
        // always with a node cap: under weak-play settings even a depth-7 mate search of a sparse position can exceed the
        // node budget of a run
        go += " nodes " + std::to_string(gp.men > 8 ? T : std::max<long long>(T, 20000));
    } else if (kind < 95) {
        go += " infinite";
        needsRelease = true;
    } else {
        needsRelease = true; // bare go == infinite
    }
    return go;
}

void genRelease(Rng& r, Scenario& sc, long long costNs, long maxNodes) {
    int k = (int)r.below(100);
    if (k < 25) sc.ops.push_back("wait_steps " + std::to_string(r.logRange(1, 4000)));
    else if (k < 55) sc.ops.push_back("wait_ticks " + std::to_string(r.logRange(1, maxNodes)));
    else if (k < 75) sc.ops.push_back("wait_us " + std::to_string(std::max(1LL, r.logRange(1, maxNodes) * costNs / 1000)));
    else if (k < 95) sc.ops.push_back("wait_info " + std::to_string(r.range(1, 5)));
    // else: immediately
}

void genGap(Rng& r, Scenario& sc, long long costNs) {
    int k = (int)r.below(100);
    if (k < 50) return; // back to back
    if (k < 75) sc.ops.push_back("wait_steps " + std::to_string(r.logRange(1, 3000)));
    else if (k < 90) sc.ops.push_back("wait_us " + std::to_string(std::max(1LL, r.logRange(1, 3000) * costNs / 1000)));
    else sc.ops.push_back("wait_ticks " + std::to_string(r.logRange(1, 5000)));
}

static const char* spinOpts[][3] = {
    // name, lo, hi  (value ranges the generator uses; wider than the declared range on purpose)
    {"Threads", "1", "8"}, {"Hash", "1", "64"}, {"MultiPV", "1", "6"}, {"Strength", "0", "1000"},
    {"MaxNPS", "0", "200000"}, {"UCI_Elo", "-625", "2900"}, {"Contempt", "-300", "300"},
    {"AnalyzeContempt", "-300", "300"}, {"BufferTime", "1", "10000"}, {"MinProbeDepth", "0", "100"},
    {"GaviotaTbCache", "1", "64"},
};
static const char* checkOpts[] = {"Ponder", "UCI_AnalyseMode", "OwnBook", "UseNullMove", "AnalysisAgeHash",
                                  "UCI_LimitStrength", "AutoContempt"};

std::string genSetOption(Rng& r, bool wild) {
    int k = (int)r.below(100);
    if (k < 55) {
        int n = (int)(sizeof(spinOpts) / sizeof(spinOpts[0]));
        const char** o = spinOpts[r.below(n)];
        long long lo = atoll(o[1]), hi = atoll(o[2]);
        long long v = r.chance(0.3) ? (r.chance(0.5) ? lo : hi) : r.range(lo, hi);
        if (wild && r.chance(0.15)) {
            static const long long odd[] = {-1, 0, -2147483647LL, 2147483647LL, 100000, 513};
            v = odd[r.below(6)];
            if (std::string(o[0]) == "Hash" && (v > 256)) v = 0; // keep allocations bounded (DESIGN 5/C05)
            if (std::string(o[0]) == "Threads" && v > 16) v = 0;
        }
        std::string name = o[0];
        if (wild && r.chance(0.2)) for (auto& c : name) c = r.chance(0.5) ? (char)toupper(c) : (char)tolower(c);
        return "setoption name " + name + " value " + std::to_string(v);
    }
    if (k < 85) {
        std::string name = checkOpts[r.below(sizeof(checkOpts) / sizeof(checkOpts[0]))];
        std::string v = r.chance(0.5) ? "true" : "false";
        if (wild && r.chance(0.1)) v = r.chance(0.5) ? "maybe" : "TRUE";
        return "setoption name " + name + " value " + v;
    }
    if (k < 92) return "setoption name Clear Hash";
    if (k < 95) return std::string("setoption name UCI_Opponent value ") + (r.chance(0.5) ? "none none computer Foo 1.0" : "GM 2800 human Someone");
    if (k < 97) return "setoption name ContemptFile value <empty>";
    if (k < 98) return "setoption name BookFile value <empty>";
    if (wild) {
        static const char* odd[] = {"setoption", "setoption name", "setoption name NoSuchOption value 3", "setoption name Hash",
                                    "setoption name Threads value", "setoption value 3 name Hash", "setoption name Clear Hash value x"};
        return odd[r.below(7)];
    }
    return "setoption name Clear Hash";
}

} // namespace gu

using namespace gu;

// ------------------------------------------------------------------------------------------
// Common runner: every oracle is always on.
static void runSessionClass(const Scenario& sc, vf::Result& res) {
    sess::History h;
    harness_session_run(&sc, &h, &res);
    uci::Model m;
    uci::buildModel(h, m);
    uci::checkContract(h, m, res);
    uci::checkResults(h, m, res);
    std::string d;
    if (sess::ttIndexViolation(d))
        res.violate("C08", "tt-index-out-of-range", d);
    res.counters["gos"] = (long long)m.gos.size();
    long rel = 0;
    for (auto& g : m.gos) if (g.needsRelease) rel++;
    res.counters["gos_needing_release"] = rel;
}

// A search that ends by its own limit while its bestmove must still be withheld (go ponder/infinite with depth, nodes
// or mate): the engine thread waits to be released while the helper threads are still searching. Options, Clear Hash,
// isready arrive in that window; then the release.
namespace gu {
void genWithheldWindow(Rng& r, Scenario& sc, pg::GenPos& gp, long long cost) {
    if (r.chance(0.7)) pushSend(sc, "setoption name Threads value " + std::to_string(r.range(2, 6)));
    if (r.chance(0.5)) pushSend(sc, "setoption name Ponder value true");
    const bool dense = r.chance(0.7);
    const long long ttBefore = sc.knobInt("tt_yield", 0);
    pg::anyPosition(r, gp);
    pushSend(sc, gp.positionCmd);
    std::string go = "go ponder"; // ('go infinite' ignores depth/nodes/mate: it would never end by itself)
    int lk = (int)r.below(3);
    if (lk == 0) go += " depth " + std::to_string(r.range(1, 4));
    else if (lk == 1) go += " nodes " + std::to_string(r.logRange(1, 2000));
    else go += " mate " + std::to_string(r.range(1, 2)) + " nodes " + std::to_string(r.logRange(50, 2000));
    pushSend(sc, go);
    sc.ops.push_back("wait_ticks 100000"); // falls through as soon as the engine thread sits in its release wait
    if (dense) sc.ops.push_back("tt_yield " + std::to_string(r.range(1, 3))); // helpers get parked inside table accesses while the options arrive
    int n = (int)r.range(1, 4);
    for (int i = 0; i < n; i++) {
        if (r.chance(0.6)) sc.ops.push_back("wait_us " + std::to_string(r.logRange(1, 40000)));
        int k = (int)r.below(10);
        if (k < 4 || i == 0) pushSend(sc, "setoption name Hash value " + std::to_string(r.chance(0.5) ? r.range(1, 4) : r.range(17, 40)));
        else if (k < 5) pushSend(sc, "setoption name Threads value " + std::to_string(r.range(1, 6)));
        else if (k < 6) pushSend(sc, "setoption name Clear Hash");
        else if (k < 7) pushSend(sc, "ucinewgame");
        else if (k < 8) { pushSend(sc, "isready"); sc.ops.push_back("wait_readyok"); }
        else pushSend(sc, genSetOption(r, false));
    }
    if (r.chance(0.7)) sc.ops.push_back("wait_us " + std::to_string(r.logRange(1, 40000)));
    pushSend(sc, go.find("ponder") != std::string::npos && r.chance(0.6) ? "ponderhit" : "stop");
    sc.ops.push_back("wait_bestmove");
    if (dense) sc.ops.push_back("tt_yield " + std::to_string(ttBefore));
    if (r.chance(0.5)) { pushSend(sc, "isready"); sc.ops.push_back("wait_readyok"); }
}
} // namespace gu

// ------------------------------------------------------------------------------------------
// C05: grammar-generated sessions
static void genC05(uint64_t seed, int tier, Scenario& sc) {
    Rng r(seed, 1), rk(seed, 2);
    sc.cls = "C05";
    sc.seed = seed;
    bool faults = rk.chance(0.5);
    sess::genSimKnobs(rk, sc, faults);
    long long cost = pickNodeCost(rk);
    sc.set("node_cost_ns", cost);
    static const char* nets[] = {"material", "material", "random", "extreme"};
    sc.setS("net", nets[rk.below(4)]);
    if (faults && rk.chance(0.2)) sc.faults.push_back("allocfail " + std::to_string(rk.range(1, 6)));
    int n = (int)r.logRange(1, 60);
    pg::GenPos gp;
    pg::randomGame(r, 0, false, gp);
    GoOpts go;
    go.maxNodes = 6000;
    go.maxDepth = 5;
    bool searching = false, released = true;
    bool ended = false;
    for (int i = 0; i < n && !ended; i++) {
        int k = (int)r.below(100);
        if (i == 0 && r.chance(0.6)) k = 0;
        if (k < 6) pushSend(sc, "uci");
        else if (k < 18) { pushSend(sc, "isready"); if (r.chance(0.6)) sc.ops.push_back("wait_readyok"); }
        else if (k < 33) pushSend(sc, genSetOption(r, true));
        else if (k < 37) pushSend(sc, "ucinewgame");
        else if (k < 55) { pg::anyPosition(r, gp); pushSend(sc, gp.positionCmd); }
        else if (k < 78) {
            bool nr;
            pushSend(sc, genGo(r, gp, cost, go, nr));
            searching = true;
            released = !nr;
            if (!nr && r.chance(0.6)) { sc.ops.push_back("wait_bestmove"); searching = false; }
        } else if (k < 86) {
            if (searching && !released) genRelease(r, sc, cost, go.maxNodes);
            pushSend(sc, "stop");
            released = true;
            if (r.chance(0.5)) { sc.ops.push_back("wait_bestmove"); searching = false; }
        } else if (k < 91) { pushSend(sc, "ponderhit"); }
        else if (k < 94) { static const char* junk[] = {"xyzzy", "debug on", "register later", "GO", "position", "go searchmoves", "   ", ""}; pushSend(sc, junk[r.below(8)]); }
        else if (k < 96) { pushSend(sc, "quit"); ended = true; }
        else if (k < 98 && !(searching && !released)) { if (searching) sc.ops.push_back("wait_bestmove"); genWithheldWindow(r, sc, gp, cost); searching = false; released = true; }
        else genGap(r, sc, cost);
        if (!ended) genGap(r, sc, cost);
    }
    if (!ended) {
        if (r.chance(0.5)) { if (r.chance(0.5)) sc.ops.push_back("wait_bestmove"); pushSend(sc, "quit"); }
        else { if (r.chance(0.5)) genGap(r, sc, cost); sc.ops.push_back("close"); }
    }
}

// ------------------------------------------------------------------------------------------
// C10: control scripts with many threads and tiny searches
static void genC10(uint64_t seed, int tier, Scenario& sc) {
    Rng r(seed, 1), rk(seed, 2);
    sc.cls = "C10";
    sc.seed = seed;
    bool faults = rk.chance(0.5);
    sess::genSimKnobs(rk, sc, faults);
    // C10 favours PCT and uniform scheduling
    if (rk.chance(0.5)) { sc.set("strategy", vsim::ST_PCT); sc.set("pct_depth", rk.range(1, 5)); sc.set("pct_horizon", rk.logRange(100, 30000)); sc.set("helper_tick_yield", rk.chance(0.5) ? 1 : 4); }
    long long cost = pickNodeCost(rk);
    sc.set("node_cost_ns", cost);
    sc.setS("net", "material");
    GoOpts go;
    go.minNodes = 50;
    go.maxNodes = 3000;
    go.maxDepth = 4;
    go.allowSearchMoves = false;
    pg::GenPos gp;
    pushSend(sc, "setoption name Threads value " + std::to_string(r.range(1, 8)));
    if (r.chance(0.3)) pushSend(sc, "setoption name Hash value " + std::to_string(r.range(1, 4)));
    int nSearch = (int)r.range(1, 5);
    for (int i = 0; i < nSearch; i++) {
        pg::anyPosition(r, gp);
        pushSend(sc, gp.positionCmd);
        int script = (int)r.below(9);
        if (script == 8) { // the bestmove of a self-terminated ponder/infinite search is withheld; options arrive meanwhile
            sc.ops.push_back("wait_bestmove"); // falls through when no search is pending
            genWithheldWindow(r, sc, gp, cost);
            continue;
        }
        bool nr;
        std::string g = genGo(r, gp, cost, go, nr);
        switch (script) {
        case 0: // go / finish
        case 1:
            pushSend(sc, g);
            if (nr) { genRelease(r, sc, cost, go.maxNodes); pushSend(sc, "stop"); }
            sc.ops.push_back("wait_bestmove");
            break;
        case 2: // go / stop
            pushSend(sc, g);
            genRelease(r, sc, cost, go.maxNodes);
            pushSend(sc, "stop");
            if (r.chance(0.7)) sc.ops.push_back("wait_bestmove");
            break;
        case 3: // ponder / ponderhit
            pushSend(sc, "go ponder" + g.substr(2));
            genRelease(r, sc, cost, go.maxNodes);
            pushSend(sc, "ponderhit");
            if (r.chance(0.5)) { genRelease(r, sc, cost, go.maxNodes); pushSend(sc, "stop"); }
            break;
        case 4: // ponder / stop
            pushSend(sc, "go ponder" + g.substr(2));
            genRelease(r, sc, cost, go.maxNodes);
            pushSend(sc, "stop");
            break;
        case 5: // back-to-back go
            pushSend(sc, g);
            if (r.chance(0.5)) genRelease(r, sc, cost, go.maxNodes);
            break;
        case 6: // option change during search
            pushSend(sc, g);
            if (r.chance(0.5)) genRelease(r, sc, cost, go.maxNodes);
            pushSend(sc, "setoption name Threads value " + std::to_string(r.range(1, 8)));
            if (r.chance(0.5)) pushSend(sc, "isready");
            break;
        case 7: // option change between searches
            pushSend(sc, g);
            if (nr) { genRelease(r, sc, cost, go.maxNodes); pushSend(sc, "stop"); }
            sc.ops.push_back("wait_bestmove");
            pushSend(sc, "setoption name Threads value " + std::to_string(r.range(1, 8)));
            if (r.chance(0.3)) pushSend(sc, "ucinewgame");
            break;
        }
        if (r.chance(0.3)) { pushSend(sc, "isready"); if (r.chance(0.5)) sc.ops.push_back("wait_readyok"); }
    }
    int endKind = (int)r.below(4);
    if (endKind == 0) { // quit during search
        pushSend(sc, "quit");
    } else if (endKind == 1) {
        sc.ops.push_back("close");
    } else {
        pushSend(sc, "stop");
        sc.ops.push_back("wait_bestmove");
        sc.ops.push_back("wait_idle");
        pushSend(sc, "isready");
        sc.ops.push_back("wait_readyok");
        pushSend(sc, "quit");
    }
}

// ------------------------------------------------------------------------------------------
// C03: searches over the option space with stop placement and TT collisions
static void genC03(uint64_t seed, int tier, Scenario& sc) {
    Rng r(seed, 1), rk(seed, 2);
    sc.cls = "C03";
    sc.seed = seed;
    bool faults = rk.chance(0.4);
    sess::genSimKnobs(rk, sc, faults);
    long long cost = pickNodeCost(rk);
    sc.set("node_cost_ns", cost);
    static const char* nets[] = {"material", "random", "extreme"};
    sc.setS("net", nets[rk.below(3)]);
    if (rk.chance(0.5)) sc.setD("collision_p", rk.chance(0.5) ? 0.01 : 0.2);
    if (faults && rk.chance(0.2)) sc.faults.push_back("allocfail " + std::to_string(rk.range(1, 6)));
    GoOpts go;
    go.maxNodes = tier > 0 ? 60000 : 15000;
    pg::GenPos gp;
    if (r.chance(0.3)) pushSend(sc, "uci");
    int nGo = (int)r.range(1, 6);
    for (int i = 0; i < nGo; i++) {
        int nOpt = (int)r.below(4);
        for (int j = 0; j < nOpt; j++) pushSend(sc, genSetOption(r, false));
        if (r.chance(0.6)) pushSend(sc, "setoption name Threads value " + std::to_string(r.range(1, 8)));
        if (r.chance(0.4)) pushSend(sc, "setoption name MultiPV value " + std::to_string(r.range(1, 5)));
        if (r.chance(0.2)) pushSend(sc, "ucinewgame");
        pg::anyPosition(r, gp);
        pushSend(sc, gp.positionCmd);
        bool nr;
        std::string g = genGo(r, gp, cost, go, nr);
        pushSend(sc, g);
        if (nr) {
            if (r.chance(0.3)) sc.ops.push_back("wait_ticks " + std::to_string(r.range(0, 40))); // stop inside iteration 1
            else genRelease(r, sc, cost, go.maxNodes);
            bool ponderhit = g.find(" ponder") != std::string::npos && r.chance(0.5);
            pushSend(sc, ponderhit ? "ponderhit" : "stop");
            if (ponderhit) { genRelease(r, sc, cost, go.maxNodes); pushSend(sc, "stop"); }
        } else if (r.chance(0.25)) {
            if (r.chance(0.5)) sc.ops.push_back("wait_ticks " + std::to_string(r.range(0, 40)));
            else genRelease(r, sc, cost, go.maxNodes);
            pushSend(sc, "stop");
        }
        if (r.chance(0.8)) sc.ops.push_back("wait_bestmove");
    }
    pushSend(sc, "quit");
}

static vf::ClassRegistrar regC05({"C05", "C05", "session", genC05, runSessionClass});
static vf::ClassRegistrar regC10({"C10", "C10", "session", genC10, runSessionClass});
static vf::ClassRegistrar regC03({"C03", "C03", "session", genC03, runSessionClass});
