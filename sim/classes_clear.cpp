// C14: Clear Hash makes the next search identical to a fresh start (refinement against a fresh engine).
// One run = three engine processes: B (fresh engine: same option history + probe), A2 (same history under
// another schedule/clock) and A (history, Clear Hash, probe). Their probe transcripts must be identical.
#include <cstring>
#include "common.hpp"
#include "session.hpp"
#include "uci_oracle.hpp"
#include "posgen.hpp"
#include "gen_util.hpp"
#include <sys/wait.h>
#include <unistd.h>

using vf::Rng;
using vf::Scenario;
using namespace gu;

extern void (*verif_tt_index_observer)(unsigned long long, unsigned long long, unsigned long long);

namespace {

// hash table geometry seen by the probe search (must equal that of a fresh engine: Clear Hash restores the full table)
bool g_probeActive = false;
unsigned long long g_lastUsed = 0, g_tableSize = 0;
void indexObserver(unsigned long long, unsigned long long usedSize, unsigned long long tableSize) {
    // the last access before the end of the session belongs to the probe search (one thread, nothing runs after
    // its bestmove): it shows the table geometry the probe worked with
    if (!g_probeActive) return; // a probe search that touches no table (e.g. no legal move at the root) shows none
    g_lastUsed = usedSize;
    g_tableSize = tableSize;
}
void probeMarker(const std::string& text) { if (text == "probe begins") g_probeActive = true; }

/** The probe search's observable result: score lines without time/nps, final node count, bestmove. */
std::string probeTranscript(const sess::History& h, const uci::Model& m) {
    if (m.gos.empty()) return "<no go>";
    const uci::GoRec& g = m.gos.back();
    if (g.bestmoveLine < 0) return "<no bestmove>";
    std::string out;
    std::string lastStats;
    for (int i = g.firstOut; i < g.lastOut; i++) {
        if (h.out[i].seq < h.sent[g.sentIdx].seqSent) continue;
        std::vector<std::string> t = vf::splitWs(h.out[i].text);
        if (t.size() < 2) continue;
        if (t[0] == "bestmove") { out += h.out[i].text + "\n"; continue; }
        if (t[0] != "info") continue;
        if (t[1] == "depth" && t.size() > 3) {
            std::string l;
            for (size_t j = 0; j < t.size(); j++) {
                if ((t[j] == "time" || t[j] == "nps") && j + 1 < t.size()) { j++; continue; }
                l += t[j] + " ";
            }
            out += l + "\n";
        } else if (t[1] == "nodes" && t.size() > 2)
            lastStats = "final nodes " + t[2];
    }
    out += lastStats + "\n";
    out += "hash table used by the probe search: " + std::to_string(g_lastUsed) + " of " + std::to_string(g_tableSize) + " entries\n";
    return out;
}

std::string runAndTranscribe(const Scenario& sc, vf::Result& res, bool checkOracles) {
    sess::History h;
    g_probeActive = false;
    g_lastUsed = 0; g_tableSize = 0;
    verif_tt_index_observer = indexObserver;
    sess::customOp = probeMarker;
    harness_session_run(&sc, &h, &res);
    verif_tt_index_observer = nullptr;
    sess::customOp = nullptr;
    uci::Model m;
    uci::buildModel(h, m);
    if (checkOracles) {
        uci::checkContract(h, m, res);
        uci::checkResults(h, m, res);
    } else {
        vf::Result scratch; // attribution of output lines to searches is a by-product of the contract check
        uci::checkContract(h, m, scratch);
    }
    res.counters["gos"] += (long long)m.gos.size();
    return probeTranscript(h, m);
}

/** Run fn in a forked process and return what it wrote; status in *st. */
std::string inChild(const Scenario& sc, int* st) {
    int pfd[2];
    if (pipe(pfd) != 0) { *st = -1; return ""; }
    pid_t pid = fork();
    if (pid == 0) {
        close(pfd[0]);
        vf::Result r2;
        vf::g_resultFd = -1; // a fatal condition in this process must not write a result line
        std::string t = runAndTranscribe(sc, r2, false);
        if (r2.verdict != "ok") t = "<violation in reference run: " + r2.vclass + " " + r2.detail + ">";
        size_t off = 0;
        while (off < t.size()) {
            ssize_t w = write(pfd[1], t.data() + off, t.size() - off);
            if (w <= 0) break;
            off += (size_t)w;
        }
        _exit(0);
    }
    close(pfd[1]);
    std::string s;
    char buf[8192];
    for (;;) {
        ssize_t n = read(pfd[0], buf, sizeof buf);
        if (n <= 0) break;
        s.append(buf, (size_t)n);
    }
    close(pfd[0]);
    int status = 0;
    waitpid(pid, &status, 0);
    *st = status;
    return s;
}

void runC14(const Scenario& sc, vf::Result& res) {
    // split ops at the probe marker
    size_t mark = sc.ops.size();
    for (size_t i = 0; i < sc.ops.size(); i++) if (sc.ops[i] == "mark probe") mark = i;
    bool haveGo = false, havePos = false, haveClear = false;
    for (size_t i = mark + 1; i < sc.ops.size(); i++) {
        if (vf::startsWith(sc.ops[i], "send go")) haveGo = i + 1 < sc.ops.size() && sc.ops[i + 1] == "wait_bestmove"; // the probe must run to completion
        if (vf::startsWith(sc.ops[i], "send position")) havePos = true;
        if (sc.ops[i] == "send setoption name Clear Hash") haveClear = true;
    }
    // the property is stated for one search thread and full strength: the last Threads/Strength settings before the probe decide
    long threadsAtProbe = 1, strengthAtProbe = 1000, npsAtProbe = 0;
    bool limitStrength = false, ownBook = false;
    for (size_t i = 0; i < mark && i < sc.ops.size(); i++) {
        std::vector<std::string> t = vf::splitWs(sc.ops[i]);
        if (t.size() >= 6 && t[0] == "send" && t[1] == "setoption" && t[4] == "value") {
            if (t[3] == "Threads") threadsAtProbe = atol(t[5].c_str());
            if (t[3] == "Strength") strengthAtProbe = atol(t[5].c_str());
            if (t[3] == "MaxNPS") npsAtProbe = atol(t[5].c_str());
            if (t[3] == "UCI_LimitStrength") limitStrength = t[5] == "true";
            if (t[3] == "OwnBook") ownBook = t[5] == "true";
        }
    }
    // every search of the history must have ended before the probe part begins (Clear Hash is specified between searches)
    bool historyIdle = true;
    bool pending = false;
    for (size_t i = 0; i < mark && i < sc.ops.size(); i++) {
        if (vf::startsWith(sc.ops[i], "send go")) { if (pending) historyIdle = false; pending = true; }
        else if (sc.ops[i] == "wait_bestmove") pending = false;
    }
    if (pending) historyIdle = false;
    if (!historyIdle) { res.counters["no_probe"]++; return; }
    // a (minimised) scenario without the complete probe part, or outside the property's domain, has nothing to compare
    if (mark == sc.ops.size() || !haveGo || !havePos || !haveClear || threadsAtProbe != 1 || strengthAtProbe != 1000 || npsAtProbe != 0 || limitStrength || ownBook) { res.counters["no_probe"]++; return; }
    Scenario a = sc, b = sc, a2 = sc;
    a.ops.clear();
    b.ops.clear();
    for (size_t i = 0; i < sc.ops.size(); i++) {
        if (i == mark) continue;
        if (i > mark && vf::startsWith(sc.ops[i], "send go")) { a.ops.push_back("x probe begins"); b.ops.push_back("x probe begins"); }
        a.ops.push_back(sc.ops[i]);
        if (i > mark) b.ops.push_back(sc.ops[i]);
        else if (vf::startsWith(sc.ops[i], "send setoption ") && sc.ops[i].find("Clear Hash") == std::string::npos)
            b.ops.push_back(sc.ops[i]);
    }
    a2.ops = a.ops;
    a2.set("sched_seed", sc.knobInt("sched_seed", 1) ^ 0x5bd1e995);
    a2.set("node_cost_ns", std::max(200LL, sc.knobInt("node_cost_ns", 1000) * 3 / 7));
    a2.set("strategy", (sc.knobInt("strategy", 0) + 1) % 4);
    int st = 0;
    std::string tb = inChild(b, &st);
    if (st != 0) { res.violate("C14", "reference-run-failed", "fresh-engine run ended abnormally, wait status " + std::to_string(st)); return; }
    std::string ta2;
    bool doA2 = sc.knobInt("repeat_run", 0) != 0;
    if (doA2) {
        ta2 = inChild(a2, &st);
        if (st != 0) { res.violate("C14", "reference-run-failed", "second history run ended abnormally, wait status " + std::to_string(st)); return; }
    }
    std::string ta = runAndTranscribe(a, res, true);
    res.counters["probe_lines"] = (long long)std::count(ta.begin(), ta.end(), '\n');
    res.counters["history_searches"] = res.counters["gos"] - 1;
    if (ta != tb)
        res.violate("C14", "differs-from-fresh", "probe search after Clear Hash differs from the same search in a fresh engine\n--- after history + Clear Hash:\n" +
                    ta + "--- fresh engine:\n" + tb);
    else if (doA2 && ta != ta2)
        res.violate("C14", "not-repeatable", "probe search after the same history under another schedule/clock differs\n--- run 1:\n" + ta + "--- run 2:\n" + ta2);
    res.info["casehash"] = vf::hex64(vf::fnv1a(ta));
    res.counters["nontrivial"] = res.counters["probe_lines"] >= 6 ? 1 : 0;
}

void genC14(uint64_t seed, int tier, Scenario& sc) {
    Rng r(seed, 1), rk(seed, 2);
    sc.cls = "C14";
    sc.seed = seed;
    sess::genSimKnobs(rk, sc, false);
    long long cost = pickNodeCost(rk);
    sc.set("node_cost_ns", cost);
    static const char* nets[] = {"material", "random", "random"};
    sc.setS("net", nets[rk.below(3)]);
    sc.set("repeat_run", rk.chance(0.3) ? 1 : 0);
    GoOpts go;
    go.minNodes = 100;
    go.maxNodes = tier > 0 ? 8000 : 2500;
    go.maxDepth = 5;
    pg::GenPos probe, gp;
    pg::randomGame(r, (int)r.range(4, 70), r.chance(0.3), probe);
    // options kept for the probe (same in A and B because B replays every setoption of A)
    // "big table" runs: a table above 16 MB takes the multi-threaded branch of TranspositionTable::clear(); the same
    // value is re-asserted before the probe, so the table is NOT reallocated and Clear Hash alone must empty it (M7-C14)
    bool bigTable = r.chance(0.3);
    long long bigMB = r.range(17, 48);
    if (bigTable) pushSend(sc, "setoption name Hash value " + std::to_string(bigMB));
    else if (r.chance(0.6)) pushSend(sc, "setoption name Hash value " + std::to_string(r.chance(0.5) ? 1 : r.range(1, 32)));
    if (r.chance(0.3)) pushSend(sc, "setoption name Contempt value " + std::to_string(r.range(-200, 200)));
    if (r.chance(0.2)) pushSend(sc, "setoption name MultiPV value " + std::to_string(r.range(1, 3)));
    if (r.chance(0.2)) pushSend(sc, "setoption name UseNullMove value false");
    int nSearch = (int)r.logRange(1, tier > 0 ? 40 : 24);
    if (r.chance(0.25)) nSearch = (int)r.range(14, 18); // around the 4-bit generation wrap
    for (int i = 0; i < nSearch; i++) {
        int k = (int)r.below(100);
        if (k < 10) pushSend(sc, "ucinewgame");
        if (k >= 10 && k < 25) {
            // option change that is reverted before the probe (the final value is re-asserted below)
            static const char* opts[][3] = {{"Contempt", "-200", "200"}, {"MultiPV", "1", "4"}, {"Threads", "1", "3"}, {"Hash", "1", "16"},
                                            {"AnalyzeContempt", "-100", "100"}, {"MinProbeDepth", "0", "10"}};
            const char** o = opts[r.below(6)];
            if (bigTable && !strcmp(o[0], "Hash")) o = opts[0]; // keep the big table allocated
            pushSend(sc, std::string("setoption name ") + o[0] + " value " + std::to_string(r.range(atoll(o[1]), atoll(o[2]))));
        }
        if (k >= 25 && k < 30) pushSend(sc, std::string("setoption name UCI_AnalyseMode value ") + (r.chance(0.5) ? "true" : "false"));
        // position: unrelated, the probe's own game, or a <=4-man root that builds / aborts an on-demand table
        int pk = (int)r.below(100);
        bool tbRoot = false;
        if (pk < 20) {
            // earlier position of the probe's own game: cut the move list
            std::string cmd = probe.positionCmd;
            size_t mv = cmd.find(" moves ");
            if (mv != std::string::npos) {
                std::vector<std::string> t = vf::splitWs(cmd.substr(mv + 7));
                size_t keep = r.below(t.size() + 1);
                cmd = cmd.substr(0, mv);
                if (keep) { cmd += " moves"; for (size_t j = 0; j < keep; j++) cmd += " " + t[j]; }
            }
            pushSend(sc, cmd);
            gp = probe;
        } else if (pk < 32) {
            pg::sparse(r, 3, true, 0, gp);
            pushSend(sc, gp.positionCmd);
            tbRoot = true;
        } else {
            pg::anyPosition(r, gp);
            pushSend(sc, gp.positionCmd);
        }
        bool nr;
        std::string g = tbRoot ? std::string("go infinite") : genGo(r, gp, cost, go, nr);
        if (tbRoot) nr = true;
        if (pk < 20) { g = "go nodes " + std::to_string(r.logRange(100, go.maxNodes)); nr = false; }
        pushSend(sc, g);
        if (nr) {
            if (tbRoot) sc.ops.push_back(r.chance(0.5) ? "wait_steps " + std::to_string(r.logRange(1, 300)) : "wait_info " + std::to_string(r.range(1, 4)));
            else genRelease(r, sc, cost, go.maxNodes);
            bool ph = g.find(" ponder") != std::string::npos && r.chance(0.5);
            pushSend(sc, ph ? "ponderhit" : "stop");
            if (ph) { genRelease(r, sc, cost, go.maxNodes); pushSend(sc, "stop"); }
        } else if (r.chance(0.2)) {
            genRelease(r, sc, cost, go.maxNodes);
            pushSend(sc, "stop");
        }
        sc.ops.push_back("wait_bestmove");
    }
    // final option values for the probe: full strength, one thread, no book, not analyse mode
    pushSend(sc, "setoption name Threads value 1");
    pushSend(sc, "setoption name UCI_AnalyseMode value false");
    pushSend(sc, "setoption name Strength value 1000");
    pushSend(sc, "setoption name UCI_LimitStrength value false");
    pushSend(sc, "setoption name MaxNPS value 0");
    pushSend(sc, "setoption name OwnBook value false");
    pushSend(sc, "setoption name Ponder value false");
    pushSend(sc, "setoption name MinProbeDepth value 1");
    pushSend(sc, "setoption name Contempt value " + std::to_string(r.chance(0.6) ? 0 : r.range(-200, 200)));
    pushSend(sc, "setoption name AnalyzeContempt value 0");
    pushSend(sc, "setoption name MultiPV value " + std::to_string(r.chance(0.8) ? 1 : r.range(2, 3)));
    { long long h = r.chance(0.5) ? 1 : r.range(1, 16); pushSend(sc, "setoption name Hash value " + std::to_string(bigTable ? bigMB : h)); }
    sc.ops.push_back("mark probe");
    pushSend(sc, "setoption name Clear Hash");
    pushSend(sc, "isready");
    sc.ops.push_back("wait_readyok");
    pushSend(sc, probe.positionCmd);
    if (r.chance(0.75)) {
        long long d = r.range(tier > 0 ? 6 : 5, tier > 0 ? 11 : 8);
        // deep probes carry a node cap so that a badly ordered search cannot exhaust the node budget of the run
        pushSend(sc, "go depth " + std::to_string(d) + (d >= 7 ? " nodes 400000" : ""));
    }
    else pushSend(sc, "go nodes " + std::to_string(r.logRange(2000, tier > 0 ? 200000 : 40000)));
    sc.ops.push_back("wait_bestmove");
    pushSend(sc, "quit");
}

vf::ClassRegistrar regC14({"C14", "C14", "session", genC14, runC14});

} // namespace
