// C18: the opening book never yields an illegal move. Simulated file layer: the harness writes polyglot files,
// damages them according to the fault plan (truncation, byte/bit flips, swapped/duplicated records, missing file,
// replacement between two probes) and probes through the real Book class and through UCI sessions with OwnBook.
#include "common.hpp"
#include "session.hpp"
#include "uci_oracle.hpp"
#include "posgen.hpp"
#include "gen_util.hpp"
#include "position.hpp"
#include "move.hpp"
#include "util.hpp"
#include <string>
#include <vector>
// the oracle needs the specification's table of random constants (a private member); it does its own indexing
#define private public
#include "polyglot.hpp"
#undef private
#include "book.hpp"
#include "parameters.hpp"
#include "textio.hpp"
#include "moveGen.hpp"
#include <algorithm>
#include <fstream>
#include <map>
#include <set>
#include <unistd.h>

using vf::Rng;
using vf::Scenario;
using namespace gu;

namespace {

struct PGRec { U64 key; U16 move; U16 weight; };

// Independent polyglot key according to the book format specification: piece kind = 2 * (pawn..king) + (white ? 1 : 0),
// offset 64 * kind + 8 * rank + file; castling 768 + {white short, white long, black short, black long}; en passant
// 772 + file; 780 if white is to move. Only the en-passant condition is taken from the engine (its position already
// drops an en-passant square that cannot be used).
U64 specKey(const Position& pos) {
    const U64* R = PolyglotBook::hashRandoms;
    U64 key = 0;
    for (int sq = 0; sq < 64; sq++) {
        int p = pos.getPiece(Square(sq));
        int type = -1;
        bool white = Piece::isWhite(p);
        switch (p) {
        case Piece::WPAWN: case Piece::BPAWN: type = 0; break;
        case Piece::WKNIGHT: case Piece::BKNIGHT: type = 1; break;
        case Piece::WBISHOP: case Piece::BBISHOP: type = 2; break;
        case Piece::WROOK: case Piece::BROOK: type = 3; break;
        case Piece::WQUEEN: case Piece::BQUEEN: type = 4; break;
        case Piece::WKING: case Piece::BKING: type = 5; break;
        default: break;
        }
        if (type >= 0) key ^= R[64 * (2 * type + (white ? 1 : 0)) + 8 * (sq >> 3) + (sq & 7)];
    }
    const int cm = pos.getCastleMask();
    if (cm & (1 << Position::H1_CASTLE)) key ^= R[768];
    if (cm & (1 << Position::A1_CASTLE)) key ^= R[769];
    if (cm & (1 << Position::H8_CASTLE)) key ^= R[770];
    if (cm & (1 << Position::A8_CASTLE)) key ^= R[771];
    if (pos.getEpSquare().isValid()) key ^= R[772 + pos.getEpSquare().getX()];
    if (pos.isWhiteMove()) key ^= R[780];
    return key;
}

// independent polyglot move encoder/decoder (castling is king-takes-rook in the file)
U16 encodeMove(const Position& pos, const Move& m) {
    int from = m.from().asInt(), to = m.to().asInt();
    int p = pos.getPiece(m.from());
    if (p == Piece::WKING && from == 4 && to == 6) to = 7;
    else if (p == Piece::WKING && from == 4 && to == 2) to = 0;
    else if (p == Piece::BKING && from == 60 && to == 62) to = 63;
    else if (p == Piece::BKING && from == 60 && to == 58) to = 56;
    int prom = 0;
    switch (m.promoteTo()) {
    case Piece::WKNIGHT: case Piece::BKNIGHT: prom = 1; break;
    case Piece::WBISHOP: case Piece::BBISHOP: prom = 2; break;
    case Piece::WROOK: case Piece::BROOK: prom = 3; break;
    case Piece::WQUEEN: case Piece::BQUEEN: prom = 4; break;
    default: break;
    }
    return (U16)((to & 7) | ((to >> 3) << 3) | ((from & 7) << 6) | ((from >> 3) << 9) | (prom << 12));
}

Move decodeMove(const Position& pos, U16 mv) {
    int to = (mv & 7) | (((mv >> 3) & 7) << 3);
    int from = ((mv >> 6) & 7) | (((mv >> 9) & 7) << 3);
    int prom = (mv >> 12) & 7;
    bool w = pos.isWhiteMove();
    int pt = Piece::EMPTY;
    if (prom == 1) pt = w ? Piece::WKNIGHT : Piece::BKNIGHT;
    else if (prom == 2) pt = w ? Piece::WBISHOP : Piece::BBISHOP;
    else if (prom == 3) pt = w ? Piece::WROOK : Piece::BROOK;
    else if (prom == 4) pt = w ? Piece::WQUEEN : Piece::BQUEEN;
    if (from == 4 && pos.getPiece(Square(4)) == Piece::WKING) { if (to == 7) to = 6; else if (to == 0) to = 2; }
    if (from == 60 && pos.getPiece(Square(60)) == Piece::BKING) { if (to == 63) to = 62; else if (to == 56) to = 58; }
    return Move(Square(from), Square(to), pt);
}

std::string serialize(const std::vector<PGRec>& recs) {
    std::string s;
    for (const PGRec& r : recs) {
        for (int i = 7; i >= 0; i--) s.push_back((char)((r.key >> (8 * i)) & 0xff));
        s.push_back((char)(r.move >> 8)); s.push_back((char)(r.move & 0xff));
        s.push_back((char)(r.weight >> 8)); s.push_back((char)(r.weight & 0xff));
        s.append(4, '\0');
    }
    return s;
}

void writeFile(const std::string& path, const std::string& data) {
    std::ofstream f(path, std::ios::binary | std::ios::trunc);
    f.write(data.data(), (std::streamsize)data.size());
}

struct BookWorld {
    std::vector<Position> probes;              // positions to probe (along the book lines and elsewhere)
    std::vector<std::string> probeCmds;
    std::vector<PGRec> recs;                   // well-formed, sorted
    std::map<U64, std::vector<PGRec>> byKey;
};

void buildWorld(Rng& r, BookWorld& W, int nLines) {
    std::vector<PGRec> recs;
    for (int l = 0; l < nLines; l++) {
        Position p = TextIO::readFEN(TextIO::startPosFEN);
        std::string cmd = "position startpos";
        if (r.chance(0.25)) { p = TextIO::readFEN("r3k2r/pppq1ppp/2npbn2/2b1p3/2B1P3/2NPBN2/PPPQ1PPP/R3K2R w KQkq - 6 8"); cmd = "position fen r3k2r/pppq1ppp/2npbn2/2b1p3/2B1P3/2NPBN2/PPPQ1PPP/R3K2R w KQkq - 6 8"; }
        if (r.chance(0.1)) { p = TextIO::readFEN("4k3/1P6/8/8/8/8/6p1/4K3 w - - 0 1"); cmd = "position fen 4k3/1P6/8/8/8/8/6p1/4K3 w - - 0 1"; }
        if (r.chance(0.15)) {
            // every combination of castling rights
            static const char* rights[] = {"K", "Q", "k", "q", "Kq", "Qk", "Kk", "Qq", "KQk", "KQq", "Kkq", "Qkq", "KQ", "kq"};
            std::string fen = std::string("r3k2r/pppq1ppp/2npbn2/2b1p3/2B1P3/2NPBN2/PPPQ1PPP/R3K2R ") + (r.chance(0.5) ? "w " : "b ") + rights[r.below(14)] + " - 6 8";
            p = TextIO::readFEN(fen);
            cmd = "position fen " + fen;
        }
        std::string moves;
        UndoInfo ui;
        int plies = r.chance(0.3) ? (int)r.range(12, 70) : (int)r.range(1, 12); // long lines reach checks and pins
        for (int i = 0; i < plies; i++) {
            std::vector<Move> lm;
            uci::legalMoves(p, lm);
            if (lm.empty()) break;
            W.probes.push_back(p);
            W.probeCmds.push_back(cmd + (moves.empty() ? "" : " moves" + moves));
            // store 1..4 moves for this position
            int n = (int)r.range(1, std::min<long long>(4, (long long)lm.size()));
            std::set<int> used;
            Move chosen = lm[r.below(lm.size())];
            for (int k = 0; k < n; k++) {
                int mi = (int)r.below(lm.size());
                // prefer castling / promotions when available
                for (size_t j = 0; j < lm.size(); j++) {
                    int pc = p.getPiece(lm[j].from());
                    bool special = lm[j].promoteTo() != Piece::EMPTY || ((pc == Piece::WKING || pc == Piece::BKING) && abs(lm[j].from().asInt() - lm[j].to().asInt()) == 2);
                    if (special && r.chance(0.5)) { mi = (int)j; break; }
                }
                if (used.count(mi)) continue;
                used.insert(mi);
                U16 w = r.chance(0.15) ? 0 : (U16)r.logRange(1, 60000);
                recs.push_back({specKey(p), encodeMove(p, lm[mi]), w});
                if (k == 0) chosen = lm[mi];
            }
            if (r.chance(0.1)) recs.push_back(recs.back()); // duplicate record
            moves += " " + TextIO::moveToUCIString(chosen);
            p.makeMove(chosen, ui);
        }
        W.probes.push_back(p);
        W.probeCmds.push_back(cmd + (moves.empty() ? "" : " moves" + moves));
    }
    // "collision" records: a pseudo-legal (preferably illegal) move stored under the key of a real probe position,
    // as a corrupted move field or a 64-bit key collision would produce. A well-formed book may contain them too.
    int nColl = (int)r.below(4);
    for (int i = 0; i < nColl && !W.probes.empty(); i++) {
        Position p = W.probes[r.below(W.probes.size())];
        MoveList pl;
        MoveGen::pseudoLegalMoves(p, pl);
        std::vector<Move> lm;
        uci::legalMoves(p, lm);
        std::vector<Move> illegalPl;
        for (int k = 0; k < pl.size; k++) if (!uci::containsMove(lm, pl[k])) illegalPl.push_back(pl[k]);
        if (illegalPl.empty()) { if (pl.size == 0) continue; illegalPl.push_back(pl[(int)r.below(pl.size)]); }
        recs.push_back({specKey(p), encodeMove(p, illegalPl[r.below(illegalPl.size())]), (U16)r.logRange(1, 60000)});
    }
    int noise = (int)r.range(0, 200);
    for (int i = 0; i < noise; i++) recs.push_back({r.next(), (U16)r.below(65536), (U16)r.below(65536)});
    std::stable_sort(recs.begin(), recs.end(), [](const PGRec& a, const PGRec& b) { return a.key < b.key; });
    W.recs = recs;
    for (const PGRec& x : recs) W.byKey[x.key].push_back(x);
}

std::string damage(Rng& r, const std::string& good, std::string& what) {
    std::string s = good;
    int k = (int)r.below(9);
    switch (k) {
    case 0: what = "truncate"; s.resize(r.below(s.size() + 1)); break;
    case 1: what = "flip-bytes"; for (int i = 0, n = (int)r.range(1, 20); i < n && !s.empty(); i++) s[r.below(s.size())] = (char)r.below(256); break;
    case 2: what = "flip-bit"; if (!s.empty()) s[r.below(s.size())] ^= (char)(1 << r.below(8)); break;
    case 3: what = "zero-block"; if (s.size() > 16) { size_t a = r.below(s.size() - 16); for (size_t i = a; i < a + 16 + r.below(64) && i < s.size(); i++) s[i] = 0; } break;
    case 4: what = "swap-records"; for (int i = 0, n = (int)r.range(1, 10); i < n && s.size() >= 32; i++) { size_t a = r.below(s.size() / 16) * 16, b = r.below(s.size() / 16) * 16; for (int j = 0; j < 16; j++) std::swap(s[a + j], s[b + j]); } break;
    case 5: what = "reverse-order"; { std::string t; for (size_t i = s.size() / 16; i-- > 0;) t += s.substr(i * 16, 16); s = t; } break;
    case 6: what = "empty"; s.clear(); break;
    case 7: what = "garbage"; s.clear(); for (int i = 0, n = (int)r.range(1, 5000); i < n; i++) s.push_back((char)r.below(256)); break;
    default: what = "odd-length"; s.resize(s.size() > 7 ? s.size() - (size_t)r.range(1, 15) % s.size() : 0); break;
    }
    return s;
}

vf::Result* g_res = nullptr;
void fatalC18(const char* kind, const std::string& detail) {
    g_res->violate("C18", std::string("sim-") + kind, detail);
    vf::emitResultAndExit(*g_res);
}

void probeAll(BookWorld& W, bool wellFormed, Rng& r, vf::Result& res, const std::string& what) {
    for (size_t i = 0; i < W.probes.size(); i++) {
        Position pos = W.probes[i];
        std::vector<Move> lm;
        uci::legalMoves(pos, lm);
        Book book(false);
        int draws = wellFormed ? 40 : 3;
        std::set<int> seen;
        // what is stored for this position
        std::vector<PGRec> stored;
        auto it = W.byKey.find(specKey(pos));
        if (it != W.byKey.end()) stored = it->second;
        bool allStoredLegal = true;
        long sumW = 0;
        for (const PGRec& x : stored) { if (!uci::containsMove(lm, decodeMove(pos, x.move))) allStoredLegal = false; sumW += x.weight; }
        for (int d = 0; d < draws; d++) {
            Move m;
            book.getBookMove(pos, m);
            res.counters["book_probes"]++;
            if (m.isEmpty()) { res.counters["book_no_move"]++; continue; }
            res.counters["book_moves_returned"]++;
            if (!uci::containsMove(lm, m)) {
                res.violate("C18", "illegal-book-move", "book (" + what + ") returned " + TextIO::moveToUCIString(m) + " which is illegal in " + TextIO::toFEN(pos));
                return;
            }
            if (wellFormed) {
                bool isStored = false;
                for (size_t k = 0; k < stored.size(); k++) if (decodeMove(pos, stored[k].move) == m) { isStored = true; seen.insert((int)k); }
                if (!isStored) {
                    res.violate("C18", "move-not-in-book", "well-formed book returned " + TextIO::moveToUCIString(m) + " which is not stored under the key of " + TextIO::toFEN(pos));
                    return;
                }
            }
        }
        std::string all = book.getAllBookMoves(pos);
        res.counters["book_listings"]++;
        if (wellFormed && allStoredLegal) {
            // every stored move must be listed; a move with positive weight must be drawable (sum of weights > 0)
            for (const PGRec& x : stored) {
                std::string ms = TextIO::moveToString(pos, decodeMove(pos, x.move), false) + "(" + std::to_string(x.weight) + ")";
                if (all.find(ms) == std::string::npos) {
                    res.violate("C18", "stored-move-not-listed", "getAllBookMoves of " + TextIO::toFEN(pos) + " = '" + all + "' lacks " + ms);
                    return;
                }
            }
            // 40 independent draws miss a move that carries at least half of the total weight with probability <= 2^-40
            for (size_t k = 0; k < stored.size(); k++)
                if (stored[k].weight > 0 && stored[k].weight * 2L >= sumW && !seen.count((int)k)) {
                    bool otherSame = false;
                    for (size_t q = 0; q < stored.size(); q++) if (q != k && stored[q].move == stored[k].move && seen.count((int)q)) otherSame = true;
                    if (!otherSame) {
                        res.violate("C18", "heavy-move-never-returned", "40 draws from " + TextIO::toFEN(pos) + " never returned " + TextIO::moveToUCIString(decodeMove(pos, stored[k].move)) +
                                    " although it carries " + std::to_string(stored[k].weight) + " of the total weight " + std::to_string(sumW));
                        return;
                    }
                }
            if (!stored.empty() && sumW > 0 && seen.empty())
                res.violate("C18", "stored-move-never-returned", "40 draws from " + TextIO::toFEN(pos) + " returned no move although weights sum to " + std::to_string(sumW));
            for (size_t k = 0; k < stored.size(); k++)
                if (stored[k].weight * 50L >= sumW && stored[k].weight > 0 && !seen.count((int)k)) res.counters["sampling_misses_weight_ge_2pct"]++;
            for (size_t k = 0; k < stored.size(); k++)
                if (stored[k].weight == 0 && seen.count((int)k) && sumW > 0) {
                    bool otherSame = false;
                    for (size_t q = 0; q < stored.size(); q++) if (q != k && stored[q].move == stored[k].move && stored[q].weight > 0) otherSame = true;
                    if (!otherSame) res.violate("C18", "zero-weight-move-returned", "move with weight 0 was drawn in " + TextIO::toFEN(pos));
                }
        }
    }
}

void runC18(const Scenario& sc, vf::Result& res) {
    g_res = &res;
    Rng r(sc.seed, 3);
    vsim::Config cfg;
    sess::configFromScenario(sc, cfg);
    vsim::onFatal = fatalC18;
    vsim::init(cfg); // virtual clock: Book::rndGen is seeded from it
    BookWorld W;
    buildWorld(r, W, (int)sc.knobInt("lines", 3));
    std::string path = vf::workDir() + "/book_" + std::to_string((long)getpid()) + ".bin";
    std::string good = serialize(W.recs);
    Parameters::instance().set("BookFile", path);
    // fault-free
    writeFile(path, good);
    probeAll(W, true, r, res, "well-formed");
    res.counters["book_records"] = (long long)W.recs.size();
    // faulty variants; some are swapped in between two probes of the same Book user
    int nVar = (int)sc.knobInt("variants", 6);
    for (int v = 0; v < nVar && res.verdict == "ok"; v++) {
        std::string what;
        std::string bad = damage(r, good, what);
        if (r.chance(0.04) && !W.probes.empty()) {
            // a file with a huge number of records under one key (all legal, maximal weight): the weight sum leaves the
            // range the move selection can handle
            what = "mass-duplicates";
            Position p = W.probes[r.below(W.probes.size())];
            std::vector<Move> lm;
            uci::legalMoves(p, lm);
            if (!lm.empty()) {
                std::vector<PGRec> recs = W.recs;
                long n = r.chance(0.5) ? (long)r.range(16380, 16500) : (long)r.range(32760, 40000);
                int nMoves = (int)r.range(1, 3);
                for (long i = 0; i < n; i++) recs.push_back({specKey(p), encodeMove(p, lm[(size_t)(i % nMoves) % lm.size()]), (U16)(r.chance(0.9) ? 65535 : r.below(65536))});
                std::stable_sort(recs.begin(), recs.end(), [](const PGRec& a, const PGRec& b) { return a.key < b.key; });
                bad = serialize(recs);
            }
        }
        if (r.chance(0.15)) { unlink(path.c_str()); what = "missing-file"; }
        else writeFile(path, bad);
        res.counters["fault_file_" + what]++;
        vf::armHangWatchdog(20, "C18", "book-probe-hang", "a book probe did not return within 20 s on a damaged file (" + what + ", " + std::to_string(bad.size()) + " bytes)");
        probeAll(W, false, r, res, what);
        vf::disarmHangWatchdog();
    }
    unlink(path.c_str());
    Parameters::instance().set("BookFile", "");
    // the built-in book: positions of random games and along the book's own answers
    {
        Position p = TextIO::readFEN(TextIO::startPosFEN);
        UndoInfo ui;
        for (int ply = 0; ply < 24 && res.verdict == "ok"; ply++) {
            std::vector<Move> lm;
            uci::legalMoves(p, lm);
            if (lm.empty()) break;
            Book book(false);
            Move m;
            book.getBookMove(p, m);
            res.counters["builtin_book_probes"]++;
            if (!m.isEmpty()) {
                res.counters["builtin_book_moves"]++;
                if (!uci::containsMove(lm, m))
                    res.violate("C18", "illegal-book-move", "built-in book returned " + TextIO::moveToUCIString(m) + " which is illegal in " + TextIO::toFEN(p));
            }
            book.getAllBookMoves(p);
            Move next = (!m.isEmpty() && r.chance(0.7) && uci::containsMove(lm, m)) ? m : lm[r.below(lm.size())];
            p.makeMove(next, ui);
        }
    }
    res.info["casehash"] = vf::hex64(vf::fnv1a(good));
    res.counters["nontrivial"] = W.recs.size() > 3;
}

void genC18(uint64_t seed, int tier, Scenario& sc) {
    Rng r(seed, 1);
    sc.cls = "C18";
    sc.seed = seed;
    sc.set("lines", r.range(1, tier > 0 ? 8 : 4));
    sc.set("variants", r.range(2, tier > 0 ? 12 : 6));
    sc.set("strategy", vsim::ST_RTB);
}

// ---- sessions with OwnBook and a book file that is damaged / replaced between searches
BookWorld* g_world = nullptr;
std::string g_path, g_good;
Rng* g_frng = nullptr;
vf::Result* g_sres = nullptr;
void bookOp(const std::string& text) {
    std::string what;
    if (text == "book good") { writeFile(g_path, g_good); what = "restore"; }
    else if (text == "book remove") { unlink(g_path.c_str()); what = "missing-file"; }
    else { writeFile(g_path, damage(*g_frng, g_good, what)); }
    g_sres->counters["fault_file_" + what]++;
}

void runC18S(const Scenario& sc, vf::Result& res) {
    Rng r(sc.knobInt("book_seed", 1), 3), fr(sc.seed, 9);
    BookWorld W;
    buildWorld(r, W, (int)sc.knobInt("lines", 3));
    g_world = &W;
    g_frng = &fr;
    g_sres = &res;
    g_path = sc.knobStr("book_path", "/verif/work/book.bin");
    g_good = serialize(W.recs);
    writeFile(g_path, g_good);
    sess::customOp = bookOp;
    sess::History h;
    harness_session_run(&sc, &h, &res);
    sess::customOp = nullptr;
    unlink(g_path.c_str());
    uci::Model m;
    uci::buildModel(h, m);
    uci::checkContract(h, m, res);
    uci::checkResults(h, m, res); // bestmove legal whether it came from the book or from the search
    res.counters["gos"] = (long long)m.gos.size();
    long bookAnswers = 0;
    for (auto& g : m.gos) {
        if (g.bestmoveLine < 0) continue;
        bool anyInfo = false;
        for (int i = g.firstOut; i < g.lastOut; i++) if (vf::startsWith(h.out[i].text, "info depth")) anyInfo = true;
        if (!anyInfo) bookAnswers++;
    }
    res.counters["probe_bestmove_from_book"] = bookAnswers;
}

void genC18S(uint64_t seed, int tier, Scenario& sc) {
    Rng r(seed, 1), rk(seed, 2);
    sc.cls = "C18S";
    sc.seed = seed;
    sess::genSimKnobs(rk, sc, false);
    long long cost = pickNodeCost(rk);
    sc.set("node_cost_ns", cost);
    sc.setS("net", "material");
    sc.set("book_seed", (long long)(r.next() >> 8));
    sc.set("lines", r.range(1, 4));
    std::string path = "/verif/work/book_" + std::to_string(seed) + ".bin";
    sc.setS("book_path", path);
    // the probe positions of the world are regenerated here to script positions along the book lines
    Rng rb(sc.knobInt("book_seed", 1), 3);
    BookWorld W;
    buildWorld(rb, W, (int)sc.knobInt("lines", 3));
    pushSend(sc, "setoption name OwnBook value true");
    pushSend(sc, "setoption name BookFile value " + path);
    GoOpts go;
    go.maxNodes = 1500;
    go.maxDepth = 3;
    go.allowPonder = false;
    int n = (int)r.range(2, 8);
    for (int i = 0; i < n; i++) {
        int k = (int)r.below(10);
        if (k < 4) sc.ops.push_back("x book damage");
        else if (k < 5) sc.ops.push_back("x book remove");
        else if (k < 7) sc.ops.push_back("x book good");
        size_t pi = r.below(W.probes.size());
        pushSend(sc, W.probeCmds[pi]);
        pg::GenPos gp;
        pg::finish(gp, W.probes[pi]);
        bool nr;
        std::string g = genGo(r, gp, cost, go, nr);
        pushSend(sc, g);
        if (nr) { genRelease(r, sc, cost, go.maxNodes); pushSend(sc, "stop"); }
        sc.ops.push_back("wait_bestmove");
    }
    pushSend(sc, "quit");
}

vf::ClassRegistrar regC18({"C18", "C18", "unit", genC18, runC18});
vf::ClassRegistrar regC18S({"C18S", "C18", "session", genC18S, runC18S});

} // namespace
