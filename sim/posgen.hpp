// Workload position generator (uses the repo's own MoveGen/TextIO; trusted here, see DESIGN.md 9).
#ifndef VERIF_POSGEN_HPP_
#define VERIF_POSGEN_HPP_
#include "common.hpp"
#include "position.hpp"
#include "move.hpp"
#include <string>
#include <vector>

namespace pg {

struct GenPos {
    std::string positionCmd;   // "position startpos moves ..." or "position fen ..."
    Position pos;              // resulting root position
    std::vector<std::string> legalUci;
    int men = 32;
};

/** Random legal game of the given number of plies from the start position (or a seeded opening). */
bool randomGame(vf::Rng& r, int plies, bool asFen, GenPos& out);

/** Random sparse placement with nMen pieces in total (kings included). Pawnless if noPawns. */
bool sparse(vf::Rng& r, int nMen, bool noPawns, int halfMoveClock, GenPos& out);

/** Rejection-sample a sparse position with a given number of legal moves (0 = mate/stalemate, 1 = forced). */
bool sparseWithMoveCount(vf::Rng& r, int wantMoves, GenPos& out);

/** Any of the above, mixed. */
void anyPosition(vf::Rng& r, GenPos& out);
/** Random legal placement of one of the material classes for which the evaluator has special endgame knowledge
 *  (KRPvKR, KQvKP, KBPvK, ...), either colour assignment, either side to move. */
bool endgameClass(vf::Rng& r, GenPos& out);

/** Fill pos/legalUci/men from a position. */
void finish(GenPos& g, const Position& p);

std::string moveStr(const Move& m);

} // namespace pg
#endif
