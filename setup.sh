#!/bin/bash
# Offline setup: build synthetic networks and all harness flavours from /repo's working tree.
set -e
cd "$(dirname "$0")"
mkdir -p work evidence replays cache
make nets >/dev/null
for f in plain asan tsan plain-ssse3 plain-avx2 plain-avx512; do
  make -j16 FLAVOUR=$f >/dev/null 2>build/setup_$f.log || { tail -30 build/setup_$f.log; exit 1; }
done
# oracle caches used by the quick checks
build/plain/texelsim dtm all3 >/dev/null
for k in KQQvK KQRvK KQBvK KQNvK KRRvK KRBvK KRNvK KBBvK KBNvK KNNvK KQvKQ KQvKR KQvKB KQvKN KRvKR KRvKB KRvKN KBvKB KBvKN KNvKN; do
  build/plain/texelsim dtm $k >/dev/null &
done
wait
echo "setup done"
